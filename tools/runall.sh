#!/bin/bash
# tools/runall.sh [tier]  -- runs every claimed check on the clean /repo tree and rewrites evidence/*.json
cd "$(dirname "$0")/.."
if [ -n "$(git -C /repo status --porcelain --untracked-files=no)" ]; then echo "repo working tree not clean"; exit 2; fi
tier="${1:-quick}"; rc=0
for p in $(python3 -c "import json;print(' '.join(c['property_id'] for c in json.load(open('MANIFEST.json'))['checks']))"); do
  out=$(./check $p --tier $tier 2>&1 | tail -3); echo "$out" | tail -1
  echo "$out" | grep -q "^OK property=$p" || rc=1
done
exit $rc
