#!/usr/bin/env python3
"""Must-fail / must-pass corpus: applies each selftest/<id>/*.patch to /repo, runs the property check, reverts.
Patch header lines:  '# expect: fail [<substring of a failing obligation name>]'  or  '# expect: pass'.
Also runs seeded/<name>/patch.diff (expect: fail, property from meta.json) when called with --seeded."""
import sys, os, subprocess, glob, json, re
root = os.path.dirname(os.path.dirname(os.path.abspath(__file__)))
repo = os.environ.get("SELFTEST_REPO", "/repo")   # a scratch worktree of /repo may be used instead
extra = "" if repo == "/repo" else " -repo " + repo + " -verif " + root   # scratch runs write out/, replays/, evidence/ in their own copy
def sh(cmd, **kw):
    return subprocess.run(cmd, shell=True, capture_output=True, text=True, **kw)
def clean():
    return sh("git -C %s status --porcelain --untracked-files=no" % repo).stdout.strip() == ""
def run_one(pid, patch, expect, needle):
    if not clean():
        print("repo working tree not clean; refusing"); sys.exit(2)
    r = sh("git -C %s apply %s" % (repo, patch))
    if r.returncode != 0:
        return "PATCH-DOES-NOT-APPLY: " + r.stderr.strip()[:200]
    try:
        r = sh("cd %s && ./check %s%s" % (root, pid, extra))
    finally:
        sh("git -C %s apply -R %s" % (repo, patch))
        sh("git -C %s checkout -- ." % repo)
    out = r.stdout + r.stderr
    viol = [l for l in out.splitlines() if l.startswith("  failed:") or l.startswith("VIOLATION")]
    if expect == "pass":
        return "ok" if r.returncode == 0 else "UNEXPECTED exit %d: %s" % (r.returncode, " | ".join(out.splitlines()[-3:]))
    if r.returncode != 1:
        return "MISSED (exit %d): %s" % (r.returncode, " | ".join(out.splitlines()[-2:]))
    if needle and not any(needle in l for l in viol):
        return "FAILED-ELSEWHERE (wanted %s): %s" % (needle, " | ".join(viol[:3]))
    names = [l.split()[1] for l in viol if l.startswith("  failed:")]
    return "ok (caught by %s)" % ", ".join(n.rstrip(":") for n in names[:3])
def main():
    args = [a for a in sys.argv[1:] if not a.startswith("--")]
    seeded = "--seeded" in sys.argv
    bad = 0
    jobs = []
    for p in sorted(glob.glob(os.path.join(root, "selftest", "C*", "*.patch"))):
        pid = os.path.basename(os.path.dirname(p))
        if args and pid not in args: continue
        hdr = open(p).read(2000)
        m = re.search(r"^# expect: (fail|pass)\s*(.*)$", hdr, re.M)
        if not m: print("no expect header:", p); bad += 1; continue
        jobs.append((pid, p, m.group(1), m.group(2).strip()))
    if seeded:
        for d in sorted(glob.glob(os.path.join(root, "seeded", "*"))):
            mf = os.path.join(d, "meta.json")
            if not os.path.exists(mf): continue
            meta = json.load(open(mf))
            if args and meta["property"] not in args: continue
            if meta.get("expected_detection", "yes") != "yes" and "--all-seeds" not in sys.argv: continue
            jobs.append((meta["property"], os.path.join(d, "patch.diff"), "fail", meta.get("obligation", "")))
    for pid, p, exp, needle in jobs:
        res = run_one(pid, p, exp, needle)
        print("%-5s %-60s expect=%-4s %s" % (pid, os.path.relpath(p, root), exp, res))
        if not res.startswith("ok"): bad += 1
    print("selftest: %d job(s), %d problem(s)" % (len(jobs), bad))
    sys.exit(1 if bad else 0)
main()
