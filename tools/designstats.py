#!/usr/bin/env python3
"""Refreshes the numbers in DESIGN.md section 0 from evidence/*.json and selftest/: the functions / obligations /
lemmas columns of the claims table and the 'Own corpus' line."""
import json, glob, os, re
root = os.path.dirname(os.path.dirname(os.path.abspath(__file__)))
p = os.path.join(root, "DESIGN.md")
s = open(p).read()
for f in sorted(glob.glob(os.path.join(root, "evidence", "C*.json"))):
    d = json.load(open(f)); c = d["coverage"]; pid = d["property_id"]
    nf, no, nl = len(c["functions_under_contract"]), c["obligations"], c.get("lemmas") or 0
    s = re.sub(r"^\| %s \| \d+ \| \d+ \| [^|]* \|" % pid, "| %s | %d | %d | %s |" % (pid, nf, no, nl if nl else "–"), s, flags=re.M)
parts = []
for d in sorted(glob.glob(os.path.join(root, "selftest", "C*"))):
    parts.append("%s %d+%d" % (os.path.basename(d), len(glob.glob(d + "/m*.patch")), len(glob.glob(d + "/p*.patch"))))
s = re.sub(r"Own corpus \(must-fail \+ must-pass per property\): [^.]*\.", "Own corpus (must-fail + must-pass per property): " + ", ".join(parts) + ".", s)
open(p, "w").write(s)
print("DESIGN.md refreshed:", ", ".join(parts))
