// Pure-Go stand-in for the cgo (LuaJIT/sqlite) parts of package contract.
// Used only through `go test -overlay` so that packages importing contract
// (chain -> syncer) compile in a sandbox without LuaJIT headers.
package contract

import (
	"context"
	"crypto/sha256"
	"errors"
	"math/big"
	"strconv"

	"github.com/aergoio/aergo/v2/fee"
	"github.com/aergoio/aergo/v2/state"
	"github.com/aergoio/aergo/v2/state/statedb"
	"github.com/aergoio/aergo/v2/types"
)

var (
	PubNet       bool
	TraceBlockNo uint64
)

const (
	BlockFactory = iota
	ChainService
)

type ChainAccessor interface {
	GetBlockByNo(blockNo types.BlockNo) (*types.Block, error)
	GetBestBlock() (*types.Block, error)
}

var errNoVM = errors.New("contract VM not available (stub)")

func Execute(execCtx context.Context, bs *state.BlockState, cdb ChainAccessor, tx *types.Tx,
	sender, receiver *state.AccountState, bi *types.BlockHeaderInfo, executionMode int, isFeeDelegation bool,
) (rv string, events []*types.Event, internalOps string, usedFee *big.Int, err error) {
	// plain value transfer only: base fee + balance move, no code execution
	txBody := tx.GetBody()
	usedFee = fee.TxBaseFee(bi.ForkVersion, bs.GasPrice, len(txBody.GetPayload()))
	if err = state.SendBalance(sender, receiver, txBody.GetAmountBigInt()); err != nil {
		return
	}
	if receiver.IsDeploy() || receiver.IsContract() || txBody.GetType() == types.TxType_MULTICALL {
		return "", nil, "", usedFee, errNoVM
	}
	return "", nil, "", usedFee, nil
}

func CreateContractID(account []byte, nonce uint64) []byte {
	h := sha256.New()
	h.Write(account)
	h.Write([]byte(strconv.FormatUint(nonce, 10)))
	recipientHash := h.Sum(nil)
	return append([]byte{0x0C}, recipientHash...)
}

func SetStateSQLMaxDBSize(size uint64)                             {}
func StartLStateFactory(numLStates, numClosers, numCloseLimit int) {}
func LoadDatabase(dataDir string) error                            { return nil }
func CloseDatabase()                                               {}
func SaveRecoveryPoint(bs *state.BlockState) error                 { return nil }
func InitContext(numCtx int, logInternalOps bool)                  {}
func MaxCallDepth(version int32) int32                             { return 64 }

func Query(contractAddress []byte, bs *state.BlockState, cdb ChainAccessor, contractState *statedb.ContractState, queryInfo []byte) (res []byte, err error) {
	return nil, errNoVM
}

func CheckFeeDelegation(contractAddress []byte, bs *state.BlockState, bi *types.BlockHeaderInfo, cdb ChainAccessor,
	contractState *statedb.ContractState, payload, txHash, sender, amount []byte) (err error) {
	return errNoVM
}

func GetABI(contractState *statedb.ContractState, bs *state.BlockState) (*types.ABI, error) {
	return nil, errNoVM
}
