#!/bin/bash
# tools/selftest_scratch.sh [selftest.py args]  -- runs the corpus against a scratch worktree of /repo and a scratch
# copy of /verif (so that work in /repo and /verif can go on meanwhile); both are removed afterwards.
set -u
W=/tmp/st_repo_$$; V=/tmp/st_verif_$$
git -C /repo worktree add --detach -q $W HEAD || exit 2
mkdir -p $V && rsync -a --exclude replays --exclude out --exclude .git /verif/ $V/
(cd $V && SELFTEST_REPO=$W python3 tools/selftest.py "$@")
rc=$?
git -C /repo worktree remove --force $W; rm -rf $V
exit $rc
