#!/usr/bin/env python3
"""Regenerates MANIFEST.json from props/*.json (claimed checks) and tools/not_applicable.json."""
import json, glob, os, subprocess
root = os.path.dirname(os.path.dirname(os.path.abspath(__file__)))
checks = []
claimed = set()
for f in sorted(glob.glob(os.path.join(root, "props", "C*.json"))):
    p = json.load(open(f))
    m = p.get("manifest")
    if not m or not m.get("claimed", True):
        continue
    pid = p["id"]
    claimed.add(pid)
    checks.append({
        "property_id": pid,
        "quick_cmd": "./check %s --tier quick" % pid,
        "thorough_cmd": "./check %s --tier thorough" % pid,
        "evidence_file": "/verif/evidence/%s.json" % pid,
        "replay_cmd_template": "./check replay {path}",
        "engine": "govc",
        "level_claimed": {"category": "proof", "text": m["level_text"], "design_ref": m.get("design_ref", "DESIGN.md section 7 (%s)" % pid)},
        "level_note": m["level_note"],
        "technique": m.get("technique", "contract-based deductive verification: weakest-precondition style VCs generated from the typed AST of /repo (govc), contracts in zz_contracts_verif.go, discharged by z3/cvc5"),
    })
na = json.load(open(os.path.join(root, "tools", "not_applicable.json")))
props = [json.loads(l)["id"] for l in open(os.path.join(root, "properties.jsonl"))]
nal = []
for pid in props:
    if pid in claimed:
        continue
    nal.append({"property_id": pid, "reason": na.get(pid, "not claimed: no contract within reach of the generator decides a clause of this property yet")})
hooks_commits = []
try:
    out = subprocess.run(["git", "-C", "/repo", "log", "--format=%H %s"], capture_output=True, text=True).stdout
    for l in out.splitlines():
        h, s = l.split(" ", 1)
        if s.startswith("verif-hook:"):
            hooks_commits.append(h)
except Exception:
    pass
man = {
    "version": 1,
    "setup_cmd": "cd /verif/govc && GOFLAGS=-mod=mod GOPROXY=off GOSUMDB=off GOTOOLCHAIN=local go build -o ../bin/govc .",
    "hooks": {
        "guard": "verif",
        "enable": "contracts are comment-only files <pkg>/zz_contracts_verif.go with //go:build verif; govc loads /repo with go/packages -tags=verif; nothing is compiled into the node",
        "baseline_off_cmd": json.load(open("/root/.vp/BASELINE.json"))["cmd"],
        "source_commits": hooks_commits,
        "add_only": True,
    },
    "engines": [{"name": "govc", "path": "/verif/govc", "serves_properties": sorted(claimed),
                 "kind_free_text": "self-written deductive verifier for Go: contracts (requires/ensures/invariant/decreases/assigns/pred/lemma) as //@ comments, forward symbolic execution over go/ast+go/types of the working tree, one SMT-LIB query per obligation, z3-new/z3/cvc5 raced"}],
    "checks": checks,
    "not_applicable": nal,
    "notes": "exit 0 = all obligations discharged; exit 1 + VIOLATION = a claimed obligation failed; exit 2 = cannot decide (contract anchor renamed, unsupported construct, vacuous precondition, solver error). See DESIGN.md.",
}
json.dump(man, open(os.path.join(root, "MANIFEST.json"), "w"), indent=1)
print("MANIFEST.json: %d claimed, %d not applicable" % (len(checks), len(nal)))
