#!/bin/bash
# tools/confirmseed.sh <seed-dir> <name> <property>
# Confirms a seeded change in a scratch worktree: demo passes without it, fails with it, package tests still pass.
# On success copies it to /verif/seeded/<name>/ with meta.json (detection fields are filled in later).
set -u
export GOFLAGS=-mod=mod GOPROXY=off GOSUMDB=off GOTOOLCHAIN=local
src="$1"; name="$2"; prop="$3"
wt="/tmp/confirm_$name"
git -C /repo worktree remove --force "$wt" >/dev/null 2>&1
git -C /repo worktree add --detach "$wt" HEAD >/dev/null 2>&1 || { echo "worktree failed"; exit 2; }
trap 'git -C /repo worktree remove --force "$wt" >/dev/null 2>&1' EXIT
demo="$src/demo_test.go"
pkgdir=$(head -3 "$demo" | grep -oE '[a-z0-9_/]+(/[a-z0-9_]+)*' | grep -E '^(types|contract|state|fee|pkg|p2p|config|internal|account|consensus)' | head -1)
[ -n "${4:-}" ] && pkgdir="$4"
[ -d "$wt/$pkgdir" ] || { echo "cannot determine package dir from demo header (got '$pkgdir')"; exit 2; }
tname=$(grep -oE 'func (TestSeed(ed|2)[A-Za-z0-9_]+)' "$demo" | head -1 | awk '{print $2}')
cp "$demo" "$wt/$pkgdir/zz_seeded_demo_test.go"
cd "$wt"
r1=$(go test -vet=off -count=1 -run "^${tname}\$" "./$pkgdir/" 2>&1 | tail -3)
echo "$r1" | grep -q '^ok' || { echo "DEMO DOES NOT PASS ON ORIGINAL: $r1"; exit 1; }
git apply "$src/patch.diff" || { echo "patch does not apply"; exit 1; }
touched=$(git diff --name-only | xargs -n1 dirname | sort -u)
for d in $touched; do go build "./$d/" 2>&1 | tail -3; done
r2=$(go test -vet=off -count=1 -run "^${tname}\$" "./$pkgdir/" 2>&1 | tail -5)
echo "$r2" | grep -q 'FAIL' || { echo "DEMO DOES NOT FAIL WITH CHANGE: $r2"; exit 1; }
rm "$wt/$pkgdir/zz_seeded_demo_test.go"
for d in $touched; do
  r3=$(go test -vet=off -count=1 "./$d/" 2>&1 | tail -3)
  echo "$r3" | grep -qE '^(ok|\?)' || { echo "EXISTING TESTS FAIL in $d: $r3"; exit 1; }
done
mkdir -p "/verif/seeded/$name"
cp "$src/patch.diff" "/verif/seeded/$name/patch.diff"
cp "$demo" "/verif/seeded/$name/demo_test.go"
[ -f "$src/notes.md" ] && cp "$src/notes.md" "/verif/seeded/$name/notes.md"
python3 - "$name" "$prop" "$pkgdir" "$tname" "$touched" <<'PY'
import json,sys
name,prop,pkgdir,tname,touched=sys.argv[1:6]
json.dump({"property":prop,"name":name,"demo_package":pkgdir,"demo_test":tname,"touched_packages":touched.split(),
 "confirmed":{"demo_passes_without_change":True,"demo_fails_with_change":True,"existing_package_tests_pass_with_change":True,
 "how":"tools/confirmseed.sh in a scratch worktree under /tmp (removed afterwards)"},
 "needs_to_manifest":"see notes.md","expected_detection":"unknown","obligation":""}, open(f"/verif/seeded/{name}/meta.json","w"), indent=1)
PY
echo "CONFIRMED $name ($prop): pkg=$pkgdir test=$tname touched=$touched"
