#!/bin/bash
# tools/witness.sh <pkgdir> <witness_test.go> <TestName>   runs a witness test against /repo via overlay
export GOFLAGS=-mod=mod GOPROXY=off GOSUMDB=off GOTOOLCHAIN=local
ov=$(mktemp /tmp/ov.XXXX.json)
echo "{\"Replace\":{\"/repo/$1/zz_witness_test.go\":\"$2\"}}" > $ov
cd /repo && go test -overlay $ov -vet=off -count=1 -timeout 120s -run "^$3\$" ./$1/ 2>&1 | tail -15
rm -f $ov
