package name

import (
	"math/big"
	"testing"

	"github.com/aergoio/aergo/v2/state"
	"github.com/aergoio/aergo/v2/types"
)

// F5: v1setOwner naming the transaction sender as the new owner. SetContractOwner loads a second handle for the
// sender's account, credits the name account's whole balance to it and puts it; the transaction executor then puts
// the sender's own handle (nonce, fee) over it, as chain.executeTx does after every governance transaction. The
// name account's balance has left the name account and arrived nowhere.
func TestWitnessC01SetOwnerToSenderBurnsBalance(t *testing.T) {
	initTest(t)
	defer deinitTest()
	senderAddr := "AmMXVdJ8DnEFysN58cox9RADC74dF1CLrQimKCMdB4XXMkJeuQgL"
	txBody := &types.TxBody{Account: types.ToAddress(senderAddr), Recipient: []byte(types.AergoName)}
	txBody.Payload = []byte(`{"Name":"v1setOwner","Args":["` + senderAddr + `"]}`)

	bs := sdb.NewBlockState(sdb.GetRoot())
	sender, _ := state.GetAccountState(txBody.Account, bs.StateDB)
	sender.AddBalance(big.NewInt(50))
	receiver, _ := state.GetAccountState(txBody.Recipient, bs.StateDB) // the name account, no owner set yet
	receiver.AddBalance(big.NewInt(1000))
	scs := openContractState(t, bs)
	total := new(big.Int).Add(sender.Balance(), receiver.Balance())

	if _, err := ExecuteNameTx(bs, scs, txBody, sender, receiver, &types.BlockHeaderInfo{No: 1, ForkVersion: 2}); err != nil {
		t.Fatal(err)
	}
	// what chain.executeTx does next for a governance transaction
	sender.SetNonce(1)
	if err := sender.PutState(); err != nil {
		t.Fatal(err)
	}
	if err := receiver.PutState(); err != nil {
		t.Fatal(err)
	}

	s2, _ := state.GetAccountState(txBody.Account, bs.StateDB)
	r2, _ := state.GetAccountState(txBody.Recipient, bs.StateDB)
	after := new(big.Int).Add(s2.Balance(), r2.Balance())
	if after.Cmp(total) != 0 {
		t.Errorf("ledger not conserved: sender+name account held %s before and %s after (sender %s, name account %s)", total, after, s2.Balance(), r2.Balance())
	}
}
