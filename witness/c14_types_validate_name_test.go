package types

// Witness for findings F1/F2 (C14): governance name payloads that made Validate panic before the fix.
// Run: go test -overlay <ov.json mapping /repo/types/zz_witness_test.go to this file> -vet=off -run TestWitnessC14Name ./types/

import "testing"

func TestWitnessC14Name(t *testing.T) {
	for _, payload := range []string{
		`{"Name":"v1updateName","Args":["aaaaaaaaaaaa",5]}`,
		`{"Name":"v1setOwner","Args":[]}`,
		`{"Name":"v1setOwner"}`,
	} {
		func() {
			defer func() {
				if r := recover(); r != nil {
					t.Errorf("validateNameTx panicked on %s: %v", payload, r)
				}
			}()
			err := validateNameTx(&TxBody{Payload: []byte(payload)})
			if err == nil {
				t.Errorf("payload %s accepted", payload)
			}
		}()
	}
}
