package system

import (
	"testing"

	"github.com/aergoio/aergo/v2/config"
	"github.com/aergoio/aergo/v2/types"
)

// F3: a voteDAO transaction that names an issue but no candidate passes the stateless admission check
// (types.ValidateSystemTx) and the stateful one (system.ValidateSystemTx, used by the pool), and then panics in
// newVoteCmd (ctx.Call.Args[1]) when it is executed.
func TestWitnessC14VoteDAOWithoutCandidate(t *testing.T) {
	scs, sender, receiver := initTest(t)
	defer deinitTest()
	sender.AddBalance(types.StakingMinimum)
	sender.AddBalance(types.StakingMinimum)
	blockInfo := &types.BlockHeaderInfo{No: uint64(0)}
	stakingTx := &types.TxBody{Account: sender.ID(), Amount: types.StakingMinimum.Bytes(), Payload: buildStakingPayload(true), Type: types.TxType_GOVERNANCE}
	if _, err := ExecuteSystemTx(scs, stakingTx, sender, receiver, blockInfo); err != nil {
		t.Fatal(err)
	}
	blockInfo.No++
	blockInfo.ForkVersion = config.AllEnabledHardforkConfig.Version(blockInfo.No)

	body := &types.TxBody{Account: sender.ID(), Recipient: []byte(types.AergoSystem), Payload: []byte(`{"Name":"v1voteDAO", "Args":["bpcount"]}`), Type: types.TxType_GOVERNANCE}
	if err := types.ValidateSystemTx(body); err != nil {
		t.Skipf("rejected by stateless admission: %v", err)
	}
	if _, err := ValidateSystemTx(sender.ID(), body, sender, scs, blockInfo); err != nil {
		return // rejected by stateful admission: the property holds
	}
	defer func() {
		if r := recover(); r != nil {
			t.Errorf("admitted transaction panics in execution: %v", r)
		}
	}()
	ExecuteSystemTx(scs, body, sender, receiver, blockInfo)
}
