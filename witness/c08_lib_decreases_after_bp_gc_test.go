package dpos

import (
	"container/list"
	"testing"
)

// F9: the LIB is assigned from calcLIB() without comparing it with the current one. When the producer set shrinks,
// the garbage collection of the per-producer proposals removes an entry, the quorum index (m-1)/3 moves down in
// the sorted proposal list, and the next update lowers the LIB.
func TestWitnessC08LIBDecreasesAfterProposalGC(t *testing.T) {
	mk := func(no uint64) *plInfo {
		return &plInfo{Plib: &blockInfo{BlockHash: "h", BlockNo: no}, PlibBy: &blockInfo{BlockHash: "b", BlockNo: no + 5}}
	}
	ls := &libStatus{Prpsd: proposed{"A": mk(10), "B": mk(20), "C": mk(30), "D": mk(40)}, confirms: list.New(), confirmsRequired: 3}
	s := &Status{libState: ls}
	if lib := ls.calcLIB(); lib != nil {
		s.updateLIB(lib)
	}
	before := s.libState.Lib.BlockNo // 20: three of the four proposals are at or above it

	ls.gc([]string{"A", "B", "C"}) // producer D was voted out
	if lib := ls.calcLIB(); lib != nil {
		s.updateLIB(lib) // what Status.Update does after the next pre-LIB
	}
	if after := s.libState.Lib.BlockNo; after < before {
		t.Errorf("LIB moved backwards from %d to %d", before, after)
	}
}
