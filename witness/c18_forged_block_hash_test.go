package chain

import (
	"bytes"
	"testing"

	"github.com/aergoio/aergo/v2/state"
	"github.com/aergoio/aergo/v2/types"
)

// F8: the Hash field of a block is a plain protobuf field filled in by the sender. BlockHash() returns it as it is
// when it is non-empty, and nothing on the path of a block received from the network compares it with the digest
// of the header: ValidateBlock accepts a block that announces an identifier its header does not hash to, and the
// node then stores and references the block under that identifier.
func TestWitnessC18ForgedBlockHashAccepted(t *testing.T) {
	hdr := &types.BlockHeader{BlockNo: 7, TxsRootHash: types.CalculateTxsRootHash(nil), PrevBlockHash: []byte{1}}
	honest := &types.Block{Header: hdr, Body: &types.BlockBody{}}
	digest := honest.BlockHash()

	forged := &types.Block{Header: hdr, Body: &types.BlockBody{}, Hash: bytes.Repeat([]byte{0xee}, 32)}
	bv := &BlockValidator{sdb: state.NewChainStateDB()}
	if err := bv.ValidateBlock(forged); err == nil && !bytes.Equal(forged.BlockHash(), digest) {
		t.Errorf("a block announcing identifier %x, whose header hashes to %x, passed ValidateBlock", forged.BlockHash()[:4], digest[:4])
	}
	if err := bv.ValidateBlock(honest); err != nil {
		t.Errorf("an honest block was rejected: %v", err)
	}
}
