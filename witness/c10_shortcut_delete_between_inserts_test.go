package trie

import (
	"bytes"
	"testing"

	"github.com/aergoio/aergo-lib/db"
	"github.com/aergoio/aergo/v2/internal/common"
)

// F6: a batch that deletes the shortcut key of a subtree while inserting keys on both sides of it.
// maybeAddShortcutToKV does not stop after removing the deleted key from the batch: on the next key it also runs
// the "insert shortcut" branch and returns [a c a s s c] instead of [a c].
func TestWitnessC10ShortcutDeletedBetweenInserts(t *testing.T) {
	k := func(b byte) []byte { x := make([]byte, 32); x[0] = b; return x }
	v := func(b byte) []byte { x := make([]byte, 32); x[31] = b; return x }
	a, s, c := k(0x10), k(0x20), k(0x30)
	tr := NewTrie(nil, common.Hasher, db.NewDB(db.MemoryImpl, ""))
	keys, vals := tr.maybeAddShortcutToKV([][]byte{a, s, c}, [][]byte{v(1), DefaultLeaf, v(3)}, s, v(2))
	if len(keys) != 2 || !bytes.Equal(keys[0], a) || !bytes.Equal(keys[1], c) || len(vals) != 2 {
		t.Errorf("merge of shortcut %x into batch [a, s->delete, c] returned %d keys %x, want [a c]", s[:1], len(keys), firstBytes(keys))
	}
	for i := 1; i < len(keys); i++ {
		if bytes.Compare(keys[i-1], keys[i]) >= 0 {
			t.Errorf("merged batch is not strictly sorted at %d: %x", i, firstBytes(keys))
			break
		}
	}

	// end to end: the root after {s} then [a, delete s, c] differs from the root of a trie holding {a, c}
	t1 := NewTrie(nil, common.Hasher, db.NewDB(db.MemoryImpl, ""))
	t1.Update([][]byte{s}, [][]byte{v(2)})
	t1.Commit()
	r1, err := t1.Update([][]byte{a, s, c}, [][]byte{v(1), DefaultLeaf, v(3)})
	if err != nil {
		t.Fatal(err)
	}
	t2 := NewTrie(nil, common.Hasher, db.NewDB(db.MemoryImpl, ""))
	r2, _ := t2.Update([][]byte{a, c}, [][]byte{v(1), v(3)})
	if !bytes.Equal(r1, r2) {
		t.Errorf("history dependence: root %x after {s}; [a, -s, c] differs from root %x of {a, c}", r1[:4], r2[:4])
	}
	if got, _ := t1.Get(s); len(got) != 0 {
		t.Errorf("deleted key s still readable: %x", got[:4])
	}
}

func firstBytes(ks [][]byte) []byte {
	var out []byte
	for _, k := range ks {
		out = append(out, k[0])
	}
	return out
}
