package enterprise

import (
	"testing"

	"github.com/aergoio/aergo/v2/types"
)

// F4: enterprise governance payloads whose first argument is not a string panic inside ValidateEnterpriseTx, which
// is what the pool runs on admission (before the admin check, so any account can send them on a private network).
func TestWitnessC14EnterpriseNonStringArg(t *testing.T) {
	scs, sender, _ := initTest(t)
	defer deinitTest()
	for _, payload := range []string{
		`{"Name":"appendAdmin","Args":[5]}`,
		`{"Name":"removeAdmin","Args":[null]}`,
		`{"Name":"setConf","Args":[5,"x"]}`,
		`{"Name":"appendConf","Args":[{"a":1},"x"]}`,
	} {
		func() {
			defer func() {
				if r := recover(); r != nil {
					t.Errorf("ValidateEnterpriseTx panics on %s: %v", payload, r)
				}
			}()
			tx := &types.TxBody{Account: sender.ID(), Recipient: []byte(types.AergoEnterprise), Payload: []byte(payload), Type: types.TxType_GOVERNANCE}
			ValidateEnterpriseTx(tx, sender, scs, 1)
		}()
	}
}
