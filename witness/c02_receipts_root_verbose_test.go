package chain

import (
	"testing"

	"github.com/aergoio/aergo/v2/types"
)

// F13: with the verbose verifier (cfg.Blockchain.VerifyBlock != 0) a block whose header carries a wrong receipts
// root passes ValidatePost: the mismatch is reported and then ignored, while a wrong state root or transaction
// root is rejected in the same mode.
func TestWitnessC02ReceiptsRootIgnoredWhenVerbose(t *testing.T) {
	var receipts *types.Receipts // empty receipt list: its merkle root is the root of no entries
	good := receipts.MerkleRoot()
	wrong := append([]byte{}, good...)
	if len(wrong) == 0 {
		wrong = []byte{1}
	} else {
		wrong[0] ^= 0xff
	}
	stateRoot := []byte{1, 2, 3}
	block := &types.Block{Header: &types.BlockHeader{BlocksRootHash: stateRoot, ReceiptsRootHash: wrong}}
	for _, verbose := range []bool{false, true} {
		bv := &BlockValidator{verbose: verbose}
		if err := bv.ValidatePost(stateRoot, receipts, block); err == nil {
			t.Errorf("verbose=%v: a block with a wrong receipts root passed ValidatePost", verbose)
		}
	}
}
