package types

// Witness for the known finding F7 (property C03): State.Clone drops SourceHash, so resetting an account to its
// pre-transaction state (AccountState.Reset = oldState.Clone()) or loading it (GetAccountState clones) loses the
// source hash of a contract deployed with source. Run with tools/witness.sh types witness/c03_state_clone_sourcehash_test.go TestWitnessC03CloneDropsSourceHash

import "testing"

func TestWitnessC03CloneDropsSourceHash(t *testing.T) {
	st := &State{Nonce: 7, Balance: []byte{1}, CodeHash: []byte{2}, SourceHash: []byte{3, 4}}
	c := st.Clone()
	if string(c.SourceHash) != string(st.SourceHash) {
		t.Fatalf("REPLAY-VIOLATION Clone lost SourceHash: got %x want %x", c.SourceHash, st.SourceHash)
	}
}
