package trie

import (
	"testing"

	"github.com/aergoio/aergo-lib/db"
	"github.com/aergoio/aergo/v2/internal/common"
)

// A present key's own inclusion proof, replayed with proofKey == key, is accepted as a proof of absence.
func TestWitnessC11NonInclusionOfPresentKey(t *testing.T) {
	st := db.NewDB(db.MemoryImpl, "")
	smt := NewTrie(nil, common.Hasher, st)
	keys := getFreshData(8, 32)
	values := getFreshData(8, 32)
	smt.Update(keys, values)
	for i, key := range keys {
		ap, included, pk, pv, err := smt.MerkleProof(key)
		if err != nil || !included || pk != nil {
			t.Fatal("setup", err, included, pk)
		}
		if !smt.VerifyInclusion(ap, key, pv) {
			t.Fatal("inclusion proof must verify")
		}
		if smt.VerifyNonInclusion(ap, key, values[i], key) {
			t.Errorf("key %d is present, yet VerifyNonInclusion accepted a proof of its absence", i)
		}
		bitmap, apc, length, _, _, _, _ := smt.MerkleProofCompressed(key)
		if smt.VerifyNonInclusionC(apc, length, bitmap, key, values[i], key) {
			t.Errorf("key %d is present, yet VerifyNonInclusionC accepted a proof of its absence", i)
		}
	}
}
