package main

import (
	"encoding/json"
	"fmt"
	"os"
	"path/filepath"
	"sort"
	"strings"
)

type Evidence struct {
	PropertyID  string                 `json:"property_id"`
	Tier        string                 `json:"tier"`
	Seed        int                    `json:"seed"`
	Level       string                 `json:"level"`
	Coverage    map[string]interface{} `json:"coverage"`
	Assumptions []string               `json:"assumptions"`
	WallS       float64                `json:"wall_s"`
	Violations  int                    `json:"violations"`
}

type Report struct {
	Evidence   *Evidence
	prop       *PropSpec
	failed     []*Obligation
	vacuous    []*Obligation
	known      []*Obligation
	errors     []*Obligation
	undecided  []*Obligation // failed without a counterexample in a function whose loop specs are stale
	verif      string
	eng        *Engine
}

func buildReport(eng *Engine, ps *PropSpec, vcs []*VC, obls []*Obligation, funcs []string, nLemmas int, tier string, seed int, verif string) *Report {
	r := &Report{prop: ps, verif: verif, eng: eng}
	ev := &Evidence{PropertyID: ps.ID, Tier: tier, Seed: seed, Level: "proof", Coverage: map[string]interface{}{}}
	r.Evidence = ev
	byBackend := map[string]int{}
	var totalMs int64
	nObl, nDis, nCover, nCoverOK := 0, 0, 0, 0
	type sample struct {
		Obligation string `json:"obligation"`
		Kind       string `json:"kind"`
		Where      string `json:"where"`
		What       string `json:"what"`
		Verdict    string `json:"verdict"`
		Solver     string `json:"solver"`
		Ms         int64  `json:"ms"`
	}
	var samples []sample
	var slowest []sample
	kinds := map[string]int{}
	retTotal, retLive := map[string]int{}, map[string]int{}
	var deadRets []*Obligation
	for _, o := range obls {
		res := o.Result
		if res == nil {
			res = &SolveResult{Status: "error"}
		}
		sm := sample{o.Name, o.Kind, o.Pos, o.Desc, res.Status, res.Solver, res.Ms}
		if o.Cover {
			nCover++
			isRet := strings.HasPrefix(o.Kind, "cover-ret")
			if isRet {
				retTotal[o.Func]++
			}
			if res.Status == "sat" || res.Status == "unknown" || res.Status == "timeout" {
				nCoverOK++
				if isRet {
					retLive[o.Func]++
				}
			} else if res.Status == "unsat" {
				if isRet {
					// an unreachable return (e.g. a defensive error path) is not vacuity as long as some
					// return of the function is reachable
					deadRets = append(deadRets, o)
				} else {
					r.vacuous = append(r.vacuous, o)
				}
			} else {
				r.errors = append(r.errors, o)
			}
			continue
		}
		if o.KF != nil && o.KFWitness {
			if res.Status != "unsat" {
				r.known = append(r.known, o)
			}
			continue
		}
		nObl++
		kinds[baseKind(o.Kind)]++
		totalMs += res.Ms
		switch res.Status {
		case "unsat":
			nDis++
			byBackend[res.Solver]++
		case "error":
			r.errors = append(r.errors, o)
		default:
			if o.vc != nil && len(o.vc.stale) > 0 && res.Status != "sat" {
				// the function's loop invariants no longer evaluate (the loop was rewritten); without a
				// counterexample from the bounded fallback nothing can be concluded
				r.undecided = append(r.undecided, o)
			} else {
				r.failed = append(r.failed, o)
			}
		}
		if len(samples) < 12 && (len(samples) < 4 || o.Kind != "ovf") {
			samples = append(samples, sm)
		}
		slowest = append(slowest, sm)
	}
	var deadNames []string
	for _, o := range deadRets {
		if retLive[o.Func] == 0 {
			r.vacuous = append(r.vacuous, o)
		} else {
			deadNames = append(deadNames, o.Name)
		}
	}
	ev.Coverage["unreachable_returns"] = deadNames
	sort.Slice(slowest, func(i, j int) bool { return slowest[i].Ms > slowest[j].Ms })
	if len(slowest) > 12 {
		slowest = slowest[:12]
	}
	var fns []string
	for _, k := range funcs {
		fns = append(fns, shortKey(k))
	}
	cov := ev.Coverage
	cov["obligations"] = nObl
	cov["discharged"] = nDis
	cov["checker_cmd"] = fmt.Sprintf("govc check -prop props/%s.json -tier %s (VCs from go/ast+go/types of /repo's working tree; z3-new 5.1.0 / z3 4.8.12 / cvc5 1.0.3 raced per obligation)", ps.ID, tier)
	cov["functions_under_contract"] = fns
	cov["lemmas"] = nLemmas
	cov["by_backend"] = byBackend
	cov["by_kind"] = kinds
	cov["solver_time_s"] = round1(float64(totalMs) / 1000)
	cov["slowest"] = slowest
	cov["samples"] = samples
	cov["vacuity"] = map[string]interface{}{"covers": nCover, "satisfiable_or_undecided": nCoverOK, "vacuous": len(r.vacuous)}
	var trusted []string
	for k := range eng.trustedUsed {
		trusted = append(trusted, k)
	}
	sort.Strings(trusted)
	tb := []string{"govc VC generator (this repository's /verif/govc): Go semantics encoding", "SMT solvers z3 4.8.12, z3 5.1.0, cvc5 1.0.3", "go/packages + go/types front end"}
	for _, t := range trusted {
		tb = append(tb, "trusted contract/model: "+t)
	}
	// contracts used but verified under another property (or nowhere)
	var assumedElsewhere []string
	for k, c := range eng.contracts {
		if c.Used && !c.Trusted && !c.Extern {
			in := false
			for _, p := range c.Props {
				if p == ps.ID {
					in = true
				}
			}
			if !in {
				assumedElsewhere = append(assumedElsewhere, fmt.Sprintf("%s (verified under %v)", shortKey(k), c.Props))
			}
		}
	}
	sort.Strings(assumedElsewhere)
	cov["trusted_base"] = tb
	cov["callee_contracts_verified_elsewhere"] = assumedElsewhere
	var hv []string
	for k := range eng.havocked {
		hv = append(hv, k)
	}
	sort.Strings(hv)
	cov["havocked_callees"] = hv
	var inl []string
	for k := range eng.inlined {
		inl = append(inl, shortKey(k))
	}
	sort.Strings(inl)
	cov["inlined_callees"] = inl
	cov["dropped"] = eng.dropped
	bounded := []string{}
	bounded = append(bounded, eng.staleLoops...)
	cov["bounded"] = bounded
	var kfs []string
	for _, o := range r.known {
		kfs = append(kfs, fmt.Sprintf("%s: %s", o.Name, o.KF.What))
	}
	cov["known_findings"] = kfs
	cov["not_covered"] = ps.NotCovered
	as := append([]string{}, ps.Assumptions...)
	for k := range eng.assumptions {
		as = append(as, k)
	}
	sort.Strings(as)
	ev.Assumptions = as
	ev.Violations = len(r.failed)
	return r
}

func baseKind(k string) string {
	if i := strings.Index(k, "."); i > 0 {
		return k[:i]
	}
	return k
}

func (r *Report) write(verif, id string) error {
	dir := filepath.Join(verif, "evidence")
	os.MkdirAll(dir, 0o755)
	b, err := json.MarshalIndent(r.Evidence, "", " ")
	if err != nil {
		return err
	}
	return os.WriteFile(filepath.Join(dir, id+".json"), append(b, '\n'), 0o644)
}

// finish prints verdict lines and returns the exit code.
func (r *Report) finish() int {
	id := r.prop.ID
	cov := r.Evidence.Coverage
	for _, o := range r.known {
		fmt.Printf("KNOWN-FINDING: property=%s %s [%s]\n", id, o.KF.What, strings.TrimSuffix(o.Name, "!kf"))
	}
	if len(r.errors) > 0 {
		for _, o := range r.errors {
			raw := ""
			if o.Result != nil {
				raw = firstLines(o.Result.Raw, 2)
			}
			fmt.Fprintf(os.Stderr, "govc: cannot decide: solver error on %s: %s\n", o.Name, raw)
		}
		return 2
	}
	if len(r.vacuous) > 0 && len(r.failed) == 0 {
		for _, o := range r.vacuous {
			fmt.Fprintf(os.Stderr, "govc: cannot decide: vacuous: %s (%s)\n", o.Name, o.Desc)
		}
		return 2
	}
	nObl := cov["obligations"].(int)
	if nObl == 0 || nObl < r.prop.MinObls || len(cov["functions_under_contract"].([]string)) < r.prop.MinFuncs {
		fmt.Fprintf(os.Stderr, "govc: cannot decide: only %d obligations over %d functions generated (expected at least %d / %d): contracts missing?\n",
			nObl, len(cov["functions_under_contract"].([]string)), r.prop.MinObls, r.prop.MinFuncs)
		return 2
	}
	if len(r.failed) == 0 && len(r.undecided) > 0 {
		for _, o := range r.undecided {
			fmt.Fprintf(os.Stderr, "govc: cannot decide: %s [%s]: loop invariants of this function no longer evaluate (%s) and the bounded fallback gave no counterexample\n", o.Name, o.Result.Status, strings.Join(o.vc.stale, "; "))
		}
		return 2
	}
	if len(r.failed) == 0 {
		fmt.Printf("OK property=%s obligations=%d discharged=%d functions=%d wall=%.1fs\n", id, nObl, cov["discharged"].(int),
			len(cov["functions_under_contract"].([]string)), r.Evidence.WallS)
		return 0
	}
	rdir := filepath.Join(r.verif, "replays", id)
	os.MkdirAll(rdir, 0o755)
	for _, o := range r.failed {
		path := filepath.Join(rdir, sanitizeFile(o.Name)+".json")
		rp := map[string]interface{}{
			"property":   id,
			"obligation": o.Name,
			"kind":       o.Kind,
			"function":   o.Func,
			"where":      o.Pos,
			"what":       o.Desc,
			"verdict":    o.Result.Status,
			"solver":     o.Result.Solver,
			"solver_output": firstLines(o.Result.Raw, 40),
			"solvers":    o.Result.Others,
			"query":      o.Result.File,
		}
		inputs := map[string]string{}
		for _, in := range o.Inputs {
			if v, ok := o.Result.Model[in.Sym]; ok {
				inputs[in.Name] = v
			}
		}
		rp["model_inputs"] = inputs
		replayed := false
		if o.Result.Status == "sat" {
			replayed = r.tryReplay(o, rp, rdir)
		}
		rp["replayed_on_real_code"] = replayed
		b, _ := json.MarshalIndent(rp, "", " ")
		os.WriteFile(path, append(b, '\n'), 0o644)
		suffix := ""
		if !replayed {
			suffix = " no-failing-input-found"
		}
		fmt.Printf("  failed: %s at %s: %s [%s]\n", o.Name, o.Pos, o.Desc, o.Result.Status)
		fmt.Printf("VIOLATION property=%s replay=%s%s\n", id, path, suffix)
	}
	return 1
}

// tryReplay attempts to reproduce a counterexample on the real code; see replay.go.
