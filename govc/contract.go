package main

import (
	"golang.org/x/tools/go/packages"
	"fmt"
	"go/ast"
	"go/parser"
	"go/token"
	"go/types"
	"strings"
)

// applyContract replaces a call by the callee's contract.
func (fr *Frame) applyContract(s *State, c *Contract, callee *types.Func, recv *Val, args []*Val, pos token.Pos) []*Val {
	sig := callee.Type().(*types.Signature)
	c.Used = true
	if c.Trusted {
		fr.eng.trustedUsed[c.Key] = true
	}
	names, resNames := fr.eng.contractNames(c, callee, recv, args)
	cpkg := fr.pkg
	if pp := fr.eng.pkgs[c.Pkg]; pp != nil {
		cpkg = pp.Types
	} else if callee.Pkg() != nil {
		cpkg = callee.Pkg()
	}
	var side []string
	env := &SpecEnv{eng: fr.eng, vc: fr.vc, s: s, old: s, names: names, pkg: cpkg, side: &side, fr: fr}
	// lets
	for _, l := range c.Lets {
		names[l.Name] = env.eval(l.C.E)
	}
	for i, r := range c.Requires {
		t := env.evalBool(r.E)
		if env.err != nil {
			fr.vc.failed = fmt.Errorf("contract %s: requires %q: %v", c.Key, r.Text, env.err)
			return fr.freshResults(s, sig.Results())
		}
		for _, f := range side {
			s.assume(f)
		}
		side = side[:0]
		fr.vc.oblige(s, "pre", t, pos, fmt.Sprintf("precondition %d of %s: %s", i+1, c.Key, r.Text))
	}
	if c.Function != nil {
		// the result is a term over the arguments and the current heap: nothing fresh, nothing changes
		v := env.eval(c.Function.E)
		if env.err != nil {
			fr.vc.failed = fmt.Errorf("contract %s: function %q: %v", c.Key, c.Function.Text, env.err)
			return fr.freshResults(s, sig.Results())
		}
		for _, f := range side {
			s.assume(f)
		}
		res := &Val{T: sig.Results().At(0).Type(), S: v.S}
		names[resNames[0]] = res
		names["result"] = res
		env2 := &SpecEnv{eng: fr.eng, vc: fr.vc, s: s, old: s, names: names, pkg: cpkg, side: &side, fr: fr}
		for _, r := range c.Ensures {
			t := env2.evalBool(r.E)
			if env2.err != nil {
				fr.vc.failed = fmt.Errorf("contract %s: ensures %q: %v", c.Key, r.Text, env2.err)
				return []*Val{res}
			}
			s.assume(t)
		}
		return []*Val{res}
	}
	pre := s.clone()
	// frame
	if c.Pure || (c.HasFrame && len(c.Assigns) == 0) {
		// nothing that existed before the call changes; objects returned by the callee may be freshly allocated
		if rh := fr.eng.resultHeaps(sig); len(rh) > 0 && !c.NoAlloc {
			old := s.next
			s.next = fr.vc.declare("next", "Int")
			s.assume(fmt.Sprintf("(>= %s %s)", s.next, old))
			fr.extendHeaps(s, rh, old)
		}
	} else if !c.HasFrame {
		fr.havocEverything(s)
	} else {
		for _, d := range c.Assigns {
			if err := fr.havocDesignator(s, pre, c, callee, d, names, cpkg); err != nil {
				fr.vc.failed = fmt.Errorf("contract %s: assigns %q: %v", c.Key, d, err)
				return fr.freshResults(s, sig.Results())
			}
		}
		old := s.next
		s.next = fr.vc.declare("next", "Int")
		s.assume(fmt.Sprintf("(>= %s %s)", s.next, old))
		if rh := fr.eng.resultHeaps(sig); len(rh) > 0 {
			fr.extendHeaps(s, rh, old)
		}
	}
	// results
	var results []*Val
	for i := 0; i < sig.Results().Len(); i++ {
		r := fr.freshVal(s, sig.Results().At(i).Type(), "res_"+callee.Name())
		results = append(results, r)
		names[resNames[i]] = r
	}
	if len(results) == 1 {
		names["result"] = results[0]
	}
	env2 := &SpecEnv{eng: fr.eng, vc: fr.vc, s: s, old: pre, names: names, pkg: cpkg, side: &side, fr: fr}
	for _, r := range c.Ensures {
		miss := ""
		env2.missingLocal = &miss
		env2.localsOf = fr.eng.funcs[callee]
		if env2.localsOf == nil {
			env2.localsOf = &FuncInfo{Pkg: &packages.Package{}}
		}
		t := env2.evalBool(r.E)
		if miss != "" {
			// a postcondition over a local variable of the callee says nothing to its callers
			env2.err = nil
			side = side[:0]
			continue
		}
		if env2.err != nil {
			fr.vc.failed = fmt.Errorf("contract %s: ensures %q: %v", c.Key, r.Text, env2.err)
			return results
		}
		for _, f := range side {
			s.assume(f)
		}
		side = side[:0]
		s.assume(t)
	}
	for _, gp := range c.GhostPuts {
		ov, kv, vv := env2.eval(gp.Obj.E), env2.eval(gp.Key.E), env2.eval(gp.Val.E)
		if env2.err != nil {
			fr.vc.failed = fmt.Errorf("contract %s: ghostput: %v", c.Key, env2.err)
			return results
		}
		hn, hs := ghostMapHeap(gp.Map)
		h := s.heap(hn, hs)
		s.setHeap(hn, hs, fmt.Sprintf("(store %s %s (store (select %s %s) %s %s))", h, ov.S, h, ov.S, kv.S, vv.S))
	}
	// ghost-set effects: object and element may mention the results (e.g. "added only when the call succeeded")
	for _, ga := range c.GhostAdds {
		ov := env2.eval(ga.Obj.E)
		ev := env2.eval(ga.Elem.E)
		if env2.err != nil {
			fr.vc.failed = fmt.Errorf("contract %s: ghostadd: %v", c.Key, env2.err)
			return results
		}
		hn, hs := ghostHeap(ga.Set)
		h := s.heap(hn, hs)
		s.setHeap(hn, hs, fmt.Sprintf("(store %s %s (store (select %s %s) %s true))", h, ov.S, h, ov.S, ev.S))
	}
	return results
}

// designatorHeaps: which heaps (coarsely) a designator touches.
func (e *Engine) designatorHeaps(c *Contract, f *types.Func, d string) (map[string]string, error) {
	out := map[string]string{}
	d = strings.TrimSpace(d)
	if d == "all" {
		return nil, fmt.Errorf("all")
	}
	// heap(T)
	if strings.HasPrefix(d, "heap(") && strings.HasSuffix(d, ")") {
		pkg := e.pkgOfContract(c, f)
		t, err := e.resolveType(d[5:len(d)-1], pkg)
		if err != nil {
			return nil, err
		}
		hn, hs := e.ptrHeap(t)
		out[hn] = hs
		return out, nil
	}
	if strings.HasPrefix(d, "elems(") && strings.HasSuffix(d, ")") {
		pkg := e.pkgOfContract(c, f)
		t, err := e.resolveType(d[6:len(d)-1], pkg)
		if err == nil {
			hn, hs := e.elemHeap(t)
			out[hn] = hs
			return out, nil
		}
	}
	if strings.HasPrefix(d, "mapof(") && strings.HasSuffix(d, ")") {
		pkg := e.pkgOfContract(c, f)
		t, err := e.resolveType(d[6:len(d)-1], pkg)
		if err == nil {
			if mt, ok := t.Underlying().(*types.Map); ok {
				vn, vs, dn, ds := e.mapHeaps(mt)
				out[vn] = vs
				out[dn] = ds
				return out, nil
			}
		}
	}
	if d == "big" {
		out["H:big"] = "(Array Int Int)"
		return out, nil
	}
	if strings.HasPrefix(d, "chansent(") && strings.HasSuffix(d, ")") {
		pkg := e.pkgOfContract(c, f)
		t, err := e.resolveType(d[9:len(d)-1], pkg)
		if err != nil {
			return nil, err
		}
		hn, hs := e.chanHeap(t)
		out[hn] = hs
		return out, nil
	}
	if strings.HasPrefix(d, "ghost(") && strings.HasSuffix(d, ")") {
		hn, hs := ghostHeap(d[6 : len(d)-1])
		out[hn] = hs
		return out, nil
	}
	if strings.HasPrefix(d, "ghostmap(") && strings.HasSuffix(d, ")") {
		hn, hs := ghostMapHeap(d[9 : len(d)-1])
		out[hn] = hs
		return out, nil
	}
	if d == "streams" || (strings.HasPrefix(d, "stream(") && strings.HasSuffix(d, ")")) {
		out[streamHeap] = streamSort
		return out, nil
	}
	// expression designators: type them statically via the parameter types
	x, err := parser.ParseExpr(d)
	if err != nil {
		return nil, err
	}
	t, err := e.staticType(x, c, f)
	if err != nil {
		return nil, err
	}
	switch xx := x.(type) {
	case *ast.SelectorExpr:
		bt, err := e.staticType(xx.X, c, f)
		if err != nil {
			return nil, err
		}
		if pt, ok := bt.Underlying().(*types.Pointer); ok {
			hn, hs := e.ptrHeap(pt.Elem())
			out[hn] = hs
			return out, nil
		}
		return nil, fmt.Errorf("field designator on non-pointer")
	case *ast.StarExpr:
		hn, hs := e.ptrHeap(t)
		out[hn] = hs
		return out, nil
	case *ast.Ident:
		// global variable
		pkg := e.pkgOfContract(c, f)
		if o, ok := pkg.Scope().Lookup(xx.Name).(*types.Var); ok {
			hn, hs := e.globalHeap(o)
			out[hn] = hs
			return out, nil
		}
	}
	return nil, fmt.Errorf("unsupported designator %q", d)
}

func (e *Engine) pkgOfContract(c *Contract, f *types.Func) *types.Package {
	if pp := e.pkgs[c.Pkg]; pp != nil {
		return pp.Types
	}
	return f.Pkg()
}

// staticType computes the Go type of a simple designator expression from the callee's signature.
func (e *Engine) staticType(x ast.Expr, c *Contract, f *types.Func) (types.Type, error) {
	sig := f.Type().(*types.Signature)
	switch xx := x.(type) {
	case *ast.Ident:
		if sig.Recv() != nil {
			rn := sig.Recv().Name()
			if fi := e.funcs[f]; fi != nil && fi.Decl.Recv != nil && len(fi.Decl.Recv.List) > 0 && len(fi.Decl.Recv.List[0].Names) > 0 {
				rn = fi.Decl.Recv.List[0].Names[0].Name
			}
			if xx.Name == rn || xx.Name == "recv" {
				return sig.Recv().Type(), nil
			}
		}
		for i := 0; i < sig.Params().Len(); i++ {
			n := sig.Params().At(i).Name()
			if c.Extern && i < len(c.Params) {
				n = c.Params[i]
			}
			if n == xx.Name {
				return sig.Params().At(i).Type(), nil
			}
		}
		for i := 0; i < sig.Results().Len(); i++ {
			if sig.Results().At(i).Name() == xx.Name {
				return sig.Results().At(i).Type(), nil
			}
		}
		pkg := e.pkgOfContract(c, f)
		if o := pkg.Scope().Lookup(xx.Name); o != nil {
			return o.Type(), nil
		}
		return nil, fmt.Errorf("unknown name %s", xx.Name)
	case *ast.SelectorExpr:
		bt, err := e.staticType(xx.X, c, f)
		if err != nil {
			return nil, err
		}
		if p, ok := bt.Underlying().(*types.Pointer); ok {
			bt = p.Elem()
		}
		st, ok := bt.Underlying().(*types.Struct)
		if !ok {
			return nil, fmt.Errorf("selector on non-struct")
		}
		for i := 0; i < st.NumFields(); i++ {
			if st.Field(i).Name() == xx.Sel.Name {
				return st.Field(i).Type(), nil
			}
		}
		return nil, fmt.Errorf("no field %s", xx.Sel.Name)
	case *ast.StarExpr:
		bt, err := e.staticType(xx.X, c, f)
		if err != nil {
			return nil, err
		}
		if p, ok := bt.Underlying().(*types.Pointer); ok {
			return p.Elem(), nil
		}
		return nil, fmt.Errorf("deref of non-pointer")
	case *ast.ParenExpr:
		return e.staticType(xx.X, c, f)
	}
	return nil, fmt.Errorf("unsupported designator expression")
}

// havocDesignator forgets the designated location (precisely: only that object's field / object / backing array).
func (fr *Frame) havocDesignator(s, pre *State, c *Contract, f *types.Func, d string, names map[string]*Val, cpkg *types.Package) error {
	d = strings.TrimSpace(d)
	if d == "all" {
		fr.havocEverything(s)
		return nil
	}
	if strings.HasPrefix(d, "heap(") || d == "big" || d == "streams" || strings.HasPrefix(d, "mapof(") || strings.HasPrefix(d, "ghost(") || strings.HasPrefix(d, "ghostmap(") || strings.HasPrefix(d, "chansent(") {
		hs, err := fr.eng.designatorHeaps(c, f, d)
		if err != nil {
			return err
		}
		for k, v := range hs {
			if strings.HasPrefix(k, "Q:") {
				s.growGhost(k, v) // ghost sets only grow
			} else {
				before := s.heap(k, v)
				s.havocHeap(k, v)
				if k == "H:big" && d == "big" {
					// the callee was not handed the caller's non-escaping local big.Int objects
					top := fr
					for top.parent != nil {
						top = top.parent
					}
					for _, o := range top.nonEscapingBigLocals() {
						if lv := s.vars[o]; lv != nil && lv.S != "" {
							s.assume(fmt.Sprintf("(= (select %s %s) (select %s %s))", s.heap(k, v), lv.S, before, lv.S))
						}
					}
				}
			}
		}
		return nil
	}
	env := &SpecEnv{eng: fr.eng, vc: fr.vc, s: pre, old: pre, names: names, pkg: cpkg, fr: fr}
	if strings.HasPrefix(d, "stream(") && strings.HasSuffix(d, ")") {
		// the ghost byte stream of one writer
		x, err := parser.ParseExpr(d[7 : len(d)-1])
		if err != nil {
			return err
		}
		w := env.evalGo(x)
		if env.err != nil {
			return env.err
		}
		s.setStream(fr.writerKey(w), fr.vc.declare("stream_hv", "(Seq Int)"))
		return nil
	}
	if strings.HasPrefix(d, "elems(") && strings.HasSuffix(d, ")") {
		// elems(sliceExpr): the backing array of that slice
		x, err := parser.ParseExpr(d[6 : len(d)-1])
		if err != nil {
			return err
		}
		v := env.evalGo(x)
		if env.err != nil {
			// maybe a type
			hs, err2 := fr.eng.designatorHeaps(c, f, d)
			if err2 != nil {
				return env.err
			}
			for k, vv := range hs {
				s.havocHeap(k, vv)
			}
			return nil
		}
		st, ok := v.T.Underlying().(*types.Slice)
		if !ok || isByte(st.Elem()) {
			return fmt.Errorf("elems() of non-slice")
		}
		hn, hs := fr.eng.elemHeap(st.Elem())
		h := s.heap(hn, hs)
		na := fr.vc.declare("elems", fmt.Sprintf("(Array Int %s)", fr.eng.sortOf(st.Elem())))
		s.setHeap(hn, hs, fmt.Sprintf("(store %s (sl_ref %s) %s)", h, v.S, na))
		return nil
	}
	x, err := parser.ParseExpr(d)
	if err != nil {
		return err
	}
	switch xx := x.(type) {
	case *ast.SelectorExpr:
		base := env.evalGo(xx.X)
		if env.err != nil {
			return env.err
		}
		pt, ok := base.T.Underlying().(*types.Pointer)
		if !ok {
			return fmt.Errorf("field designator on non-pointer %s", base.T)
		}
		si := fr.eng.structSort(pt.Elem())
		idx := si.fieldIndex(xx.Sel.Name)
		if idx < 0 {
			return fmt.Errorf("no field %s", xx.Sel.Name)
		}
		hn, hs := fr.eng.ptrHeap(pt.Elem())
		h := s.heap(hn, hs)
		cur := &Val{T: pt.Elem(), S: fmt.Sprintf("(select %s %s)", h, base.S)}
		nv := fr.freshVal(s, si.Fields[idx].Type(), "fld_"+xx.Sel.Name)
		upd := fr.eng.setField(cur, idx, nv.S)
		s.setHeap(hn, hs, fmt.Sprintf("(store %s %s %s)", h, base.S, upd.S))
		return nil
	case *ast.StarExpr:
		p := env.evalGo(xx.X)
		if env.err != nil {
			return env.err
		}
		pt, ok := p.T.Underlying().(*types.Pointer)
		if !ok {
			return fmt.Errorf("*designator on non-pointer")
		}
		hn, hs := fr.eng.ptrHeap(pt.Elem())
		h := s.heap(hn, hs)
		nv := fr.freshVal(s, pt.Elem(), "obj")
		if isBigInt(pt.Elem()) {
			nv = &Val{T: pt.Elem(), S: fr.vc.declare("bigv", "Int")}
		}
		s.setHeap(hn, hs, fmt.Sprintf("(store %s %s %s)", h, p.S, nv.S))
		return nil
	case *ast.Ident:
		if o, ok := cpkg.Scope().Lookup(xx.Name).(*types.Var); ok {
			hn, hs := fr.eng.globalHeap(o)
			s.havocHeap(hn, hs)
			return nil
		}
	}
	return fmt.Errorf("unsupported designator %q", d)
}

// ---------------------------------------------------------------------------
// verification of one function against its contract

func (e *Engine) verifyFunc(c *Contract) *VC {
	fi := e.funcByKey[c.Key]
	vc := e.newVC(shortKey(c.Key))
	vc.wrapping = c.Wrapping
	vc.prune = c.Prune
	vc.noSafety = c.NoSafety
	if fi == nil {
		vc.failed = fmt.Errorf("no body for %s", c.Key)
		return vc
	}
	if fi.Pkg.TypesInfo == nil {
		vc.failed = fmt.Errorf("no type information for %s", c.Key)
		return vc
	}
	sig := fi.Obj.Type().(*types.Signature)
	fr := &Frame{eng: e, vc: vc, fi: fi, info: fi.Pkg.TypesInfo, pkg: fi.Pkg.Types, sig: sig, contract: c, topLevel: true, lets: map[string]*Val{}}
	fr.boxedSet = findBoxed(fi.Decl.Body, fr.info)
	s := vc.newState()
	// parameters
	names := map[string]*Val{}
	bind := func(id *ast.Ident) {
		o, ok := fr.info.Defs[id].(*types.Var)
		if !ok || o == nil {
			return
		}
		v := fr.freshVal(s, o.Type(), "in_"+o.Name())
		names[o.Name()] = v
		e.inputLeaves(s, o.Name(), v, 0, &vc.inputs)
		fr.bindParam(s, o, v)
	}
	if fi.Decl.Recv != nil {
		for _, f := range fi.Decl.Recv.List {
			for _, n := range f.Names {
				bind(n)
			}
		}
	}
	if fi.Decl.Type.Params != nil {
		for _, f := range fi.Decl.Type.Params.List {
			for _, n := range f.Names {
				bind(n)
			}
		}
	}
	fr.initResults(s, fi.Decl.Type)
	fr.assumeGlobalInvs(s)
	fr.entry = s.clone()
	vc.replayFn = fi
	// package-level variables of the function's package are inputs too (scalars only)
	if sc := fi.Pkg.Types.Scope(); sc != nil {
		for _, n := range sc.Names() {
			if gv, ok := sc.Lookup(n).(*types.Var); ok {
				if b, ok := gv.Type().Underlying().(*types.Basic); ok && b.Info()&(types.IsInteger|types.IsBoolean) != 0 {
					hn, hs := e.globalHeap(gv)
					vc.inputs = append(vc.inputs, InputSym{Name: "global:" + n, Sym: s.heap(hn, hs), Type: gv.Type().String()})
				}
			}
		}
	}
	entryNames := names
	env := &SpecEnv{eng: e, vc: vc, s: s, old: fr.entry, names: entryNames, pkg: fr.pkg, fr: fr}
	var side []string
	env.side = &side
	for _, l := range c.Lets {
		v := env.eval(l.C.E)
		fr.lets[l.Name] = v
		names[l.Name] = v
	}
	var pres []string
	for _, r := range c.Requires {
		t := env.evalBool(r.E)
		if env.err != nil {
			vc.failed = fmt.Errorf("%s: requires %q: %v", c.Key, r.Text, env.err)
			return vc
		}
		for _, f := range side {
			s.assume(f)
		}
		side = side[:0]
		s.assume(t)
		pres = append(pres, t)
	}
	// known findings: exclusions are evaluated over the entry values
	for _, kf := range e.knownFindings {
		if kf.Function != vc.fn {
			continue
		}
		se, err := parseSpec(kf.Excluding)
		if err != nil {
			vc.failed = fmt.Errorf("known finding %s: %v", kf.Obligation, err)
			return vc
		}
		t := env.evalBool(se)
		if env.err != nil {
			vc.failed = fmt.Errorf("known finding %s: %v", kf.Obligation, env.err)
			return vc
		}
		if vc.excl == nil {
			vc.excl = map[string]exclusion{}
		}
		vc.excl[kf.Obligation] = exclusion{term: t, kf: kf}
	}
	// vacuity: the precondition must be satisfiable
	vc.cover(s, "cover-pre", "true", fi.Decl.Pos(), "precondition of "+c.Key+" is satisfiable")
	// entry values of parameters for old(p): parameters in `names` stay bound to entry values in ensures
	end := fr.execBlock(s, fi.Decl.Body.List)
	if end != nil {
		fr.doReturn(end, nil, fi.Decl.Body.Rbrace)
	}
	if vc.failed != nil {
		return vc
	}
	// frame: nothing outside `assigns` changes
	if c.HasFrame || c.Pure {
		ex, err := fr.frameExemptions(c, fi.Obj, entryNames, fr.entry)
		if err != nil {
			vc.failed = fmt.Errorf("%s: assigns: %v", c.Key, err)
			return vc
		}
		for ri, r := range fr.returns {
			fr.checkFrame(c, ex, r.s, ri)
		}
	}
	// postconditions at every return
	for ri, r := range fr.returns {
		rnames := map[string]*Val{}
		for k, v := range entryNames {
			rnames[k] = v
		}
		_, resNames := e.contractNames(c, fi.Obj, nil, nil)
		for i, v := range r.vals {
			if i < len(resNames) {
				rnames[resNames[i]] = v
			}
		}
		if len(r.vals) == 1 {
			rnames["result"] = r.vals[0]
		}
		renv := &SpecEnv{eng: e, vc: vc, s: r.s, old: fr.entry, names: rnames, pkg: fr.pkg, fr: fr}
		var side2 []string
		renv.side = &side2
		if c.NoAlloc {
			for _, v := range r.vals {
				switch v.T.Underlying().(type) {
				case *types.Pointer, *types.Map:
					vc.oblige(r.s, "noalloc.ret", fmt.Sprintf("(< %s %s)", v.S, fr.entry.next), fi.Decl.Pos(), fmt.Sprintf("%s is declared noalloc: its result at return %d is nil or an object that existed at entry", c.Key, ri+1))
				}
			}
		}
		if c.Function != nil && len(r.vals) > 0 {
			fv := renv.eval(c.Function.E)
			if renv.err != nil {
				vc.failed = fmt.Errorf("%s: function %q: %v", c.Key, c.Function.Text, renv.err)
				return vc
			}
			for _, f := range side2 {
				r.s.assume(f)
			}
			side2 = side2[:0]
			if c.Defines {
				e.assumptions[fmt.Sprintf("%s: the specification symbol in %q is defined as the result of this function (assumes the function is a deterministic, terminating function of exactly the listed arguments)", c.Key, c.Function.Text)] = true
				r.s.assume(eq(r.vals[0].S, fv.S))
			} else {
				vc.oblige(r.s, "post-function.ret", eq(r.vals[0].S, fv.S), fi.Decl.Pos(), fmt.Sprintf("result of %s equals its defining expression %s at return %d", c.Key, c.Function.Text, ri+1))
			}
		}
		if len(c.Ensures) > 0 {
			vc.cover(r.s, fmt.Sprintf("cover-ret%d.", ri+1), "true", fi.Decl.Pos(), fmt.Sprintf("return %d of %s is reachable", ri+1, c.Key))
		}
		for i, en := range c.Ensures {
			miss := ""
			renv.missingLocal = &miss
			t := renv.evalBool(en.E)
			if miss != "" {
				renv.err = nil
				// the clause talks about a local variable that is not live at this return
				e.dropped["postcondition over a local variable skipped at a return where it is not in scope"]++
				side2 = side2[:0]
				continue
			}
			if renv.err != nil {
				vc.failed = fmt.Errorf("%s: ensures %q: %v", c.Key, en.Text, renv.err)
				return vc
			}
			for _, f := range side2 {
				r.s.assume(f)
			}
			side2 = side2[:0]
			vc.oblige(r.s, fmt.Sprintf("post%d.ret", i+1), t, fi.Decl.Pos(), fmt.Sprintf("postcondition %d of %s at return %d: %s", i+1, c.Key, ri+1, en.Text))
			// later postconditions may build on earlier ones (each is proved from the facts before it); not in
			// the bounded fallback, where quantified assumptions would keep the solvers from returning models
			if len(vc.stale) == 0 {
				r.s.assume(t)
			}
		}
	}
	return vc
}

func shortKey(k string) string {
	return strings.TrimPrefix(k, "github.com/aergoio/aergo/v2/")
}

// verifyLemma proves `requires ==> ensures` for all values of the parameters.
func (e *Engine) verifyLemma(l *Lemma, assumeOnly bool) *VC {
	pkgName := l.Pkg
	vc := e.newVC(shortKey(pkgName) + ".lemma." + l.Name)
	var pkg *types.Package
	if pp := e.pkgs[l.Pkg]; pp != nil {
		pkg = pp.Types
	}
	s := vc.newState()
	names := map[string]*Val{}
	fr := &Frame{eng: e, vc: vc, pkg: pkg, lets: map[string]*Val{}}
	for _, b := range l.Params {
		t, err := e.resolveType(b.Type, pkg)
		if err != nil {
			vc.failed = fmt.Errorf("lemma %s: %v", l.Name, err)
			return vc
		}
		v := fr.freshVal(s, t, "lm_"+b.Name)
		names[b.Name] = v
		e.inputLeaves(s, b.Name, v, 0, &vc.inputs)
	}
	vc.replayLemma = l
	if pkg != nil {
		for _, n := range pkg.Scope().Names() {
			if gv, ok := pkg.Scope().Lookup(n).(*types.Var); ok {
				if b, ok := gv.Type().Underlying().(*types.Basic); ok && b.Info()&(types.IsInteger|types.IsBoolean) != 0 {
					hn, hs := e.globalHeap(gv)
					vc.inputs = append(vc.inputs, InputSym{Name: "global:" + n, Sym: s.heap(hn, hs), Type: gv.Type().String()})
				}
			}
		}
	}
	var side []string
	env := &SpecEnv{eng: e, vc: vc, s: s, old: s, names: names, pkg: pkg, side: &side, fr: fr}
	for _, r := range l.Requires {
		t := env.evalBool(r.E)
		if env.err != nil {
			vc.failed = fmt.Errorf("lemma %s: requires %q: %v", l.Name, r.Text, env.err)
			return vc
		}
		for _, f := range side {
			s.assume(f)
		}
		side = side[:0]
		s.assume(t)
	}
	vc.cover(s, "cover-pre", "true", token.NoPos, "hypotheses of lemma "+l.Name+" are satisfiable")
	// uses: instances of this lemma (induction hypothesis, only below the measure) or of earlier lemmas
	for _, u := range l.Uses {
		var call *ast.CallExpr
		var id *ast.Ident
		g, ok := u.E.(*SGo)
		if ok && len(g.Subs) == 0 {
			call, ok = g.E.(*ast.CallExpr)
		} else {
			ok = false
		}
		if ok {
			id, ok = call.Fun.(*ast.Ident)
		}
		if !ok {
			vc.failed = fmt.Errorf("lemma %s: uses %q: expected name(args)", l.Name, u.Text)
			return vc
		}
		var target *Lemma
		for _, o := range e.lemmas {
			if o.Pkg == l.Pkg && o.Name == id.Name {
				target = o
				break
			}
			if o == l {
				break // only this lemma or lemmas declared before it
			}
		}
		if target == nil || len(call.Args) != len(target.Params) {
			vc.failed = fmt.Errorf("lemma %s: uses %q: no such earlier lemma / arity", l.Name, u.Text)
			return vc
		}
		inst := map[string]*Val{}
		for i, b := range target.Params {
			v := env.evalGo(call.Args[i])
			if env.err != nil {
				vc.failed = fmt.Errorf("lemma %s: uses %q: %v", l.Name, u.Text, env.err)
				return vc
			}
			t, _ := e.resolveType(b.Type, pkg)
			inst[b.Name] = &Val{T: t, S: v.S}
		}
		ienv := &SpecEnv{eng: e, vc: vc, s: s, old: s, names: inst, pkg: pkg, side: &side, fr: fr}
		var hyp, concl []string
		for _, r := range target.Requires {
			hyp = append(hyp, ienv.evalBool(r.E))
		}
		if target == l {
			if l.Decreases == nil {
				vc.failed = fmt.Errorf("lemma %s: uses itself without a decreases measure", l.Name)
				return vc
			}
			m0 := env.eval(l.Decreases.E)
			m1 := ienv.eval(l.Decreases.E)
			if env.err == nil && ienv.err == nil {
				hyp = append(hyp, fmt.Sprintf("(<= 0 %s)", m1.S), fmt.Sprintf("(< %s %s)", m1.S, m0.S))
			}
		}
		for _, en := range target.Ensures {
			concl = append(concl, ienv.evalBool(en.E))
		}
		if env.err != nil || ienv.err != nil {
			vc.failed = fmt.Errorf("lemma %s: uses %q: %v %v", l.Name, u.Text, env.err, ienv.err)
			return vc
		}
		for _, f := range side {
			s.assume(f)
		}
		side = side[:0]
		s.assume(implies(and(hyp...), and(concl...)))
	}
	for i, en := range l.Ensures {
		t := env.evalBool(en.E)
		if env.err != nil {
			vc.failed = fmt.Errorf("lemma %s: ensures %q: %v", l.Name, en.Text, env.err)
			return vc
		}
		for _, f := range side {
			s.assume(f)
		}
		side = side[:0]
		vc.oblige(s, fmt.Sprintf("lemma%d.", i+1), t, token.NoPos, fmt.Sprintf("lemma %s conclusion %d: %s", l.Name, i+1, en.Text))
	}
	return vc
}
