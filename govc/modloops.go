package main

import (
	"os"
	"fmt"
	"strings"
	"go/ast"
	"go/token"
	"go/types"
	"sort"
)

// modSet is the set of locations a piece of code may modify.
type modSet struct {
	vars  map[types.Object]bool
	heaps map[string]string // heap name -> sort
	all   bool
	alloc bool
	// bigFresh: big.Int objects are only created and initialised in the loop (every math/big call has a fresh
	// object as receiver root); objects that existed when the loop was entered keep their values
	bigFresh bool
	// via[h] lists the local variables through which heap h is written; whole[h] is set when some write to h
	// goes through anything else. A heap written only through loop-invariant locals keeps all other objects.
	via   map[string][]types.Object
	whole map[string]bool
	// fields[h][obj]: field indexes of the struct *obj (a loop-invariant local pointer) written as obj.f = ...
	fields map[string]map[types.Object]map[int]bool
}

func (ms *modSet) touch(hn, hs string) {
	ms.heaps[hn] = hs
	ms.whole[hn] = true
}

// allocTouch: the heap receives stores only at freshly allocated references.
func (ms *modSet) allocTouch(hn, hs string) {
	ms.heaps[hn] = hs
}

func newModSet() *modSet {
	return &modSet{vars: map[types.Object]bool{}, heaps: map[string]string{}, via: map[string][]types.Object{}, whole: map[string]bool{},
		fields: map[string]map[types.Object]map[int]bool{}}
}

// noteWrite records a write to heap hn whose target object is denoted by base.
func (fr *Frame) noteWrite(ms *modSet, hn, hs string, base ast.Expr, info *types.Info) {
	ms.heaps[hn] = hs
	if id, ok := ast.Unparen(base).(*ast.Ident); ok {
		if o, ok := info.ObjectOf(id).(*types.Var); ok && o != nil && !fr.isBoxed(o) && !(o.Pkg() != nil && o.Parent() == o.Pkg().Scope()) {
			ms.via[hn] = append(ms.via[hn], o)
			return
		}
	}
	ms.whole[hn] = true
}

func (fr *Frame) modOf(nodes ...ast.Node) *modSet {
	ms := newModSet()
	for _, n := range nodes {
		if n != nil {
			fr.modWalk(n, ms, fr.info, map[string]bool{})
		}
	}
	return ms
}

func (fr *Frame) modLhs(e ast.Expr, ms *modSet, info *types.Info) {
	switch x := ast.Unparen(e).(type) {
	case *ast.Ident:
		if o, ok := info.ObjectOf(x).(*types.Var); ok && o != nil {
			if o.Pkg() != nil && o.Parent() == o.Pkg().Scope() {
				hn, hs := fr.eng.globalHeap(o)
				ms.touch(hn, hs)
			} else if fr.isBoxed(o) {
				hn, hs := fr.eng.ptrHeap(o.Type())
				ms.touch(hn, hs)
				ms.vars[o] = true
			} else {
				ms.vars[o] = true
			}
		}
	case *ast.StarExpr:
		if t := info.TypeOf(x.X); t != nil {
			if pt, ok := t.Underlying().(*types.Pointer); ok {
				hn, hs := fr.eng.ptrHeap(pt.Elem())
				ms.touch(hn, hs)
			}
		}
	case *ast.SelectorExpr:
		if sel, ok := info.Selections[x]; ok {
			// find the innermost pointer on the path; if none the base variable itself is modified
			t := info.TypeOf(x.X)
			if t == nil {
				ms.all = true
				return
			}
			// walk: base type then each field
			cur := t
			lastPtr := types.Type(nil)
			if p, ok := cur.Underlying().(*types.Pointer); ok {
				lastPtr = p.Elem()
				cur = p.Elem()
			}
			path := sel.Index()
			for _, idx := range path[:len(path)-1] {
				st, ok := cur.Underlying().(*types.Struct)
				if !ok {
					break
				}
				cur = st.Field(idx).Type()
				if p, ok := cur.Underlying().(*types.Pointer); ok {
					lastPtr = p.Elem()
					cur = p.Elem()
				}
			}
			if lastPtr != nil {
				hn, hs := fr.eng.ptrHeap(lastPtr)
				// x.f = ... with x a plain local pointer variable and f a direct field: only that field of *x changes
				if id, isId := ast.Unparen(x.X).(*ast.Ident); isId && len(path) == 1 {
					if o, isVar := info.ObjectOf(id).(*types.Var); isVar && o != nil && !fr.isBoxed(o) && !(o.Pkg() != nil && o.Parent() == o.Pkg().Scope()) {
						if _, isPtr := o.Type().Underlying().(*types.Pointer); isPtr {
							ms.heaps[hn] = hs
							if ms.fields[hn] == nil {
								ms.fields[hn] = map[types.Object]map[int]bool{}
							}
							if ms.fields[hn][o] == nil {
								ms.fields[hn][o] = map[int]bool{}
							}
							ms.fields[hn][o][path[0]] = true
							return
						}
					}
				}
				ms.touch(hn, hs)
			}
			if _, isPtr := t.Underlying().(*types.Pointer); !isPtr {
				fr.modLhs(x.X, ms, info)
			}
		} else if o, ok := info.Uses[x.Sel].(*types.Var); ok {
			hn, hs := fr.eng.globalHeap(o)
			ms.touch(hn, hs)
		}
	case *ast.IndexExpr:
		t := info.TypeOf(x.X)
		if t == nil {
			ms.all = true
			return
		}
		switch u := t.Underlying().(type) {
		case *types.Map:
			vn, vs, dn, ds := fr.eng.mapHeaps(u)
			fr.noteWrite(ms, vn, vs, x.X, info)
			fr.noteWrite(ms, dn, ds, x.X, info)
		case *types.Slice:
			if isByte(u.Elem()) {
				fr.modLhs(x.X, ms, info)
			} else {
				hn, hs := fr.eng.elemHeap(u.Elem())
				fr.noteWrite(ms, hn, hs, x.X, info)
			}
		case *types.Array:
			fr.modLhs(x.X, ms, info)
		case *types.Pointer:
			hn, hs := fr.eng.ptrHeap(u.Elem())
			ms.touch(hn, hs)
		}
	}
}

func (fr *Frame) modWalk(n ast.Node, ms *modSet, info *types.Info, visiting map[string]bool) {
	ast.Inspect(n, func(n ast.Node) bool {
		if ms.all {
			return false
		}
		switch x := n.(type) {
		case *ast.AssignStmt:
			for _, l := range x.Lhs {
				fr.modLhs(l, ms, info)
			}
		case *ast.IncDecStmt:
			fr.modLhs(x.X, ms, info)
		case *ast.SendStmt:
			if t := info.TypeOf(x.Chan); t != nil {
				if ct, ok := t.Underlying().(*types.Chan); ok {
					hn, hs := fr.eng.chanHeap(ct.Elem())
					ms.touch(hn, hs)
				}
			}
		case *ast.RangeStmt:
			if x.Key != nil {
				fr.modLhs(x.Key, ms, info)
			}
			if x.Value != nil {
				fr.modLhs(x.Value, ms, info)
			}
		case *ast.DeclStmt:
			if gd, ok := x.Decl.(*ast.GenDecl); ok {
				for _, sp := range gd.Specs {
					if vs, ok := sp.(*ast.ValueSpec); ok {
						for _, nm := range vs.Names {
							if o := info.Defs[nm]; o != nil {
								ms.vars[o] = true
								if fr.isBoxed(o) {
									hn, hs := fr.eng.ptrHeap(o.Type())
									ms.allocTouch(hn, hs)
									ms.alloc = true
								}
							}
						}
					}
				}
			}
		case *ast.GoStmt:
			ms.all = true
		case *ast.UnaryExpr:
			if x.Op == token.AND {
				ms.alloc = true
				if t := info.TypeOf(x.X); t != nil {
					hn, hs := fr.eng.ptrHeap(t)
					ms.allocTouch(hn, hs)
				}
			}
		case *ast.CompositeLit:
			ms.alloc = true
			if t := info.TypeOf(x); t != nil {
				switch u := t.Underlying().(type) {
				case *types.Slice:
					if !isByte(u.Elem()) {
						hn, hs := fr.eng.elemHeap(u.Elem())
						ms.allocTouch(hn, hs)
					}
				case *types.Map:
					vn, vs, dn, ds := fr.eng.mapHeaps(u)
					ms.allocTouch(vn, vs)
					ms.allocTouch(dn, ds)
				}
			}
		case *ast.CallExpr:
			fr.modCall(x, ms, info, visiting)
		}
		return true
	})
}

func (fr *Frame) modCall(call *ast.CallExpr, ms *modSet, info *types.Info, visiting map[string]bool) {
	if tv, ok := info.Types[call.Fun]; ok && tv.IsType() {
		return
	}
	fun := ast.Unparen(call.Fun)
	if id, ok := fun.(*ast.Ident); ok {
		if b, ok := info.Uses[id].(*types.Builtin); ok {
			switch b.Name() {
			case "append":
				ms.alloc = true
				if t := info.TypeOf(call); t != nil {
					if st, ok := t.Underlying().(*types.Slice); ok && !isByte(st.Elem()) {
						hn, hs := fr.eng.elemHeap(st.Elem())
						ms.allocTouch(hn, hs)
					}
				}
			case "copy":
				if t := info.TypeOf(call.Args[0]); t != nil {
					if st, ok := t.Underlying().(*types.Slice); ok {
						if isByte(st.Elem()) {
							a := ast.Unparen(call.Args[0])
							if se, ok := a.(*ast.SliceExpr); ok {
								a = se.X
							}
							fr.modLhs(a, ms, info)
						} else {
							hn, hs := fr.eng.elemHeap(st.Elem())
							ms.touch(hn, hs)
						}
					}
				}
			case "delete":
				if t := info.TypeOf(call.Args[0]); t != nil {
					if mt, ok := t.Underlying().(*types.Map); ok {
						_, _, dn, ds := fr.eng.mapHeaps(mt)
						fr.noteWrite(ms, dn, ds, call.Args[0], info)
					}
				}
			case "make", "new":
				ms.alloc = true
				if t := info.TypeOf(call); t != nil {
					switch u := t.Underlying().(type) {
					case *types.Slice:
						if !isByte(u.Elem()) {
							hn, hs := fr.eng.elemHeap(u.Elem())
							ms.allocTouch(hn, hs)
						}
					case *types.Map:
						_, _, dn, ds := fr.eng.mapHeaps(u)
						ms.allocTouch(dn, ds)
					case *types.Pointer:
						hn, hs := fr.eng.ptrHeap(u.Elem())
						ms.allocTouch(hn, hs)
					}
				}
			case "clear":
				ms.all = true
			}
			return
		}
	}
	// logger chains
	if sel, ok := fun.(*ast.SelectorExpr); ok {
		if s, ok := info.Selections[sel]; ok {
			if f, ok := s.Obj().(*types.Func); ok && isLogPkg(f.Pkg()) {
				return
			}
		}
	}
	var callee *types.Func
	switch f := fun.(type) {
	case *ast.Ident:
		if o, ok := info.Uses[f].(*types.Func); ok {
			callee = o
		} else if v, ok := info.Uses[f].(*types.Var); ok {
			if fr.pureFuncVar(v) {
				return // a call through a variable that only ever holds pure declared functions
			}
			// closure variable: its body is walked where it is defined (FuncLit inside the loop or before);
			// conservatively everything
			ms.all = true
			return
		}
	case *ast.SelectorExpr:
		if s, ok := info.Selections[f]; ok {
			if s.Kind() == types.MethodVal {
				callee, _ = s.Obj().(*types.Func)
				// implicit &x receiver counts as boxed var use
			}
		} else if o, ok := info.Uses[f.Sel].(*types.Func); ok {
			callee = o
		}
	case *ast.FuncLit:
		return // body is walked by Inspect
	}
	if callee == nil {
		if sel, ok := fun.(*ast.SelectorExpr); ok {
			if hs, ok := fr.fieldFuncHeaps(sel, info); ok {
				for hn, hsort := range hs {
					ms.touch(hn, hsort)
				}
				return
			}
		}
		ms.all = true
		return
	}
	callee = callee.Origin()
	if isSortModel(callee) {
		if fullName(callee) != "sort.Search" && len(call.Args) > 0 {
			if t := info.TypeOf(call.Args[0]); t != nil {
				if st, ok := t.Underlying().(*types.Slice); ok && !isByte(st.Elem()) {
					hn, hs := fr.eng.elemHeap(st.Elem())
					ms.touch(hn, hs)
					return
				}
			}
			ms.all = true
		}
		return
	}
	if isStreamModel(callee) {
		ms.alloc = true
		ms.touch(streamHeap, streamSort)
		return
	}
	if c := fr.eng.contractFor(callee); c != nil {
		if c.Pure && len(c.GhostAdds) == 0 && len(c.GhostPuts) == 0 {
			return
		}
		if !c.HasFrame {
			ms.all = true
			return
		}
		ms.alloc = true
		if err := fr.frameHeaps(c, callee, ms); err != nil {
			ms.all = true
		}
		for _, ga := range c.GhostAdds {
			hn, hs := ghostHeap(ga.Set)
			ms.touch(hn, hs)
		}
		for _, gp := range c.GhostPuts {
			hn, hs := ghostMapHeap(gp.Map)
			ms.touch(hn, hs)
		}
		return
	}
	switch fullName(callee) {
	case "reflect.ValueOf", "reflect.Value.NumField", "reflect.Value.Field", "reflect.Value.Uint":
		return // read-only reflection (see reflectModel; anything else about reflect is havoc at the call)
	}
	if isKnownPure(callee) {
		ms.alloc = true
		// big.Int methods mutate their receiver
		if callee.Pkg() != nil && callee.Pkg().Path() == "math/big" {
			if bigReceiverFresh(call, info) {
				ms.bigFresh = true
			} else {
				ms.touch("H:big", "(Array Int Int)")
			}
		}
		return
	}
	fi := fr.eng.funcs[callee]
	if fi == nil || fi.Pkg.TypesInfo == nil || visiting[fi.Key] || len(visiting) > 8 {
		ms.all = true
		return
	}
	visiting[fi.Key] = true
	sub := &Frame{eng: fr.eng, vc: fr.vc, fi: fi, info: fi.Pkg.TypesInfo, boxedSet: findBoxed(fi.Decl.Body, fi.Pkg.TypesInfo)}
	inner := newModSet()
	sub.modWalk(fi.Decl.Body, inner, fi.Pkg.TypesInfo, visiting)
	delete(visiting, fi.Key)
	if inner.all {
		ms.all = true
		return
	}
	for k, v := range inner.heaps {
		if inner.whole[k] || len(inner.via[k]) > 0 || len(inner.fields[k]) > 0 {
			ms.touch(k, v)
		} else {
			ms.allocTouch(k, v) // the callee only allocates in this heap
		}
	}
	if inner.alloc {
		ms.alloc = true
	}
}

// frameHeaps maps a contract's assigns designators to heap names (coarse: the whole heap of that type).
func (fr *Frame) frameHeaps(c *Contract, f *types.Func, ms *modSet) error {
	for _, d := range c.Assigns {
		hs, err := fr.eng.designatorHeaps(c, f, d)
		if err != nil {
			return err
		}
		for k, v := range hs {
			ms.touch(k, v)
		}
	}
	return nil
}

// havocMod forgets the locations in ms.
func (fr *Frame) havocMod(s *State, ms *modSet) {
	if dbg := os.Getenv("GOVC_DEBUG_MODS"); dbg != "" && strings.Contains(fr.vc.fn, dbg) {
		var hn []string
		for k := range ms.heaps {
			hn = append(hn, k)
		}
		sort.Strings(hn)
		fmt.Fprintf(os.Stderr, "govc: loop mod set of %s: all=%v heaps=%v\n", fr.vc.fn, ms.all, hn)
	}
	if ms.all {
		fr.havocEverything(s)
	} else {
		var names []string
		for k := range ms.heaps {
			names = append(names, k)
		}
		sort.Strings(names)
		if _, touched := ms.heaps["H:big"]; ms.bigFresh && !touched {
			fr.extendHeaps(s, map[string]string{"H:big": "(Array Int Int)"}, s.next)
		}
		for _, k := range names {
			if !ms.whole[k] && len(ms.fields[k]) > 0 && len(ms.via[k]) == 0 {
				// only fields of loop-invariant local pointers are written: everything else keeps its value
				ok := true
				type upd struct {
					ref string
					t   types.Type
					idx []int
				}
				var upds []upd
				var objs []types.Object
				for o := range ms.fields[k] {
					objs = append(objs, o)
				}
				sort.Slice(objs, func(i, j int) bool { return objs[i].Pos() < objs[j].Pos() })
				for _, o := range objs {
					v, have := s.vars[o]
					if ms.vars[o] || !have {
						ok = false
						break
					}
					var idx []int
					for i := range ms.fields[k][o] {
						idx = append(idx, i)
					}
					sort.Ints(idx)
					upds = append(upds, upd{v.S, v.T.Underlying().(*types.Pointer).Elem(), idx})
				}
				if ok {
					h := s.heap(k, ms.heaps[k])
					for _, u := range upds {
						cur := &Val{T: u.t, S: fmt.Sprintf("(select %s %s)", h, u.ref)}
						si := fr.eng.structSort(u.t)
						for _, i := range u.idx {
							nv := fr.freshVal(s, si.Fields[i].Type(), "fld_"+si.Fields[i].Name())
							cur = fr.eng.setField(cur, i, nv.S)
						}
						h = fmt.Sprintf("(store %s %s %s)", h, u.ref, cur.S)
					}
					s.setHeap(k, ms.heaps[k], h)
					continue
				}
			}
			if !ms.whole[k] {
				// written only through loop-invariant local variables and fresh allocations: every other
				// object that exists at the loop head keeps its content
				ok := len(ms.fields[k]) == 0
				var except []string
				for _, o := range ms.via[k] {
					v, have := s.vars[o]
					if ms.vars[o] || !have {
						ok = false
						break
					}
					switch v.T.Underlying().(type) {
					case *types.Slice:
						except = append(except, "(sl_ref "+v.S+")")
					default:
						except = append(except, v.S)
					}
				}
				if ok {
					pre := s.heap(k, ms.heaps[k])
					s.havocHeap(k, ms.heaps[k])
					cur := s.heaps[k]
					conds := []string{"(< r " + s.next + ")"}
					for _, x := range except {
						conds = append(conds, not(eq("r", x)))
					}
					s.assume(fmt.Sprintf("(forall ((r Int)) (! (=> %s (= (select %s r) (select %s r))) :pattern ((select %s r))))", and(conds...), cur, pre, cur))
					continue
				}
			}
			if strings.HasPrefix(k, "Q:") {
				s.growGhost(k, ms.heaps[k])
			} else {
				s.havocHeap(k, ms.heaps[k])
			}
		}
	}
	var objs []types.Object
	for o := range ms.vars {
		if _, ok := s.vars[o]; ok {
			objs = append(objs, o)
		}
	}
	sort.Slice(objs, func(i, j int) bool { return objs[i].Pos() < objs[j].Pos() })
	for _, o := range objs {
		if s.vars[o].Fn != nil {
			continue
		}
		s.vars[o] = fr.freshVal(s, o.Type(), o.Name())
	}
	if ms.alloc || ms.all {
		old := s.next
		s.next = fr.vc.declare("next", "Int")
		s.assume(fmt.Sprintf("(>= %s %s)", s.next, old))
	}
}

func (fr *Frame) loopSpec(n ast.Node) (*LoopSpec, int) {
	// loops are numbered in source order inside the function under verification
	top := fr
	// a loop inside a function literal of the function under verification is numbered with that function's loops
	for top.depth > 0 && top.lit != nil && top.parent != nil && top.parent.fi == top.fi {
		top = top.parent
	}
	if top.fi == nil || top.depth > 0 || top.contract == nil {
		return nil, 0
	}
	ord := 0
	found := 0
	ast.Inspect(top.fi.Decl.Body, func(m ast.Node) bool {
		switch m.(type) {
		case *ast.ForStmt, *ast.RangeStmt:
			ord++
			if m == n {
				found = ord
			}
		}
		return true
	})
	if found == 0 {
		return nil, 0
	}
	return top.contract.Loops[found], found
}

func (fr *Frame) specEnvAt(s *State, pos token.Pos, extra map[string]*Val) *SpecEnv {
	names := map[string]*Val{}
	for k, v := range fr.lets {
		names[k] = v
	}
	for k, v := range extra {
		names[k] = v
	}
	return &SpecEnv{eng: fr.eng, vc: fr.vc, s: s, old: fr.entry, names: names, pos: pos, pkg: fr.pkg, fr: fr}
}

// evalClauses evaluates spec clauses in state s; side facts (function applications) are assumed.
func (fr *Frame) evalClause(s *State, c *Clause, pos token.Pos, extra map[string]*Val) string {
	var side []string
	env := fr.specEnvAt(s, pos, extra)
	env.side = &side
	t := env.evalBool(c.E)
	if env.err != nil {
		fr.vc.failed = fmt.Errorf("%s: clause %q: %v", fr.vc.fn, c.Text, env.err)
		return "true"
	}
	for _, f := range side {
		s.assume(f)
	}
	return t
}

func (fr *Frame) execFor(s *State, x *ast.ForStmt, label string) *State {
	if x.Init != nil {
		s = fr.execStmt(s, x.Init, "")
		if s == nil {
			return nil
		}
	}
	spec, ord := fr.loopSpec(x)
	bodyPos := x.Body.Lbrace + 1
	if spec != nil && !fr.loopSpecUsable(s, spec, bodyPos, nil, ord) {
		return fr.unrollFor(s, x, label)
	}
	// invariant on entry
	if spec != nil {
		for i, h := range spec.EntryHints {
			t := fr.evalClause(s, h, bodyPos, nil)
			fr.vc.oblige(s, fmt.Sprintf("hint.L%d.", ord), t, x.Pos(), fmt.Sprintf("loop %d entry hint %d: %s", ord, i+1, h.Text))
		}
		for i, inv := range spec.Invariants {
			t := fr.evalClause(s, inv, bodyPos, nil)
			fr.vc.oblige(s, fmt.Sprintf("inv-entry.L%d.", ord), t, x.Pos(), fmt.Sprintf("loop %d invariant %d on entry: %s", ord, i+1, inv.Text))
		}
	}
	// arbitrary iteration
	var nodes []ast.Node
	nodes = append(nodes, x.Body)
	if x.Post != nil {
		nodes = append(nodes, x.Post)
	}
	if x.Cond != nil {
		nodes = append(nodes, x.Cond)
	}
	ms := fr.modOf(nodes...)
	head := s.clone()
	fr.havocMod(head, ms)
	if spec != nil {
		for _, inv := range spec.Invariants {
			head.assume(fr.evalClause(head, inv, bodyPos, nil))
		}
	}
	var m0 string
	if spec != nil && spec.Decreases != nil {
		m0 = fr.vc.define("measure", "Int", fr.evalClause(head, spec.Decreases, bodyPos, nil))
	}
	var sb, sx *State
	if x.Cond != nil {
		c := fr.eval(head, x.Cond)
		sb = head.fork(c.S)
		sx = head.fork(not(c.S))
	} else {
		sb = head
	}
	lc := fr.pushLoop(label, false)
	lc.spec, lc.ord = spec, ord
	end := fr.execBlock(sb, x.Body.List)
	fr.stepHints(end, lc, x.Body.Rbrace)
	fr.popLoop()
	cont := mergeAll(append([]*State{end}, lc.continues...))
	if cont != nil {
		if x.Post != nil {
			cont = fr.execStmt(cont, x.Post, "")
		}
		if cont != nil && spec != nil {
			for i, inv := range spec.Invariants {
				t := fr.evalClause(cont, inv, bodyPos, nil)
				fr.vc.oblige(cont, fmt.Sprintf("inv-step.L%d.", ord), t, x.Pos(), fmt.Sprintf("loop %d invariant %d preserved: %s", ord, i+1, inv.Text))
			}
			if spec.Decreases != nil {
				m1 := fr.evalClause(cont, spec.Decreases, bodyPos, nil)
				fr.vc.oblige(cont, fmt.Sprintf("dec.L%d.", ord), fmt.Sprintf("(and (<= 0 %s) (< %s %s))", m0, m1, m0), x.Pos(), fmt.Sprintf("loop %d variant decreases and is bounded below", ord))
			}
		}
	}
	outs := append([]*State{}, lc.breaks...)
	if sx != nil {
		outs = append(outs, sx)
	}
	return mergeAll(outs)
}

func (fr *Frame) execRange(s *State, x *ast.RangeStmt, label string) *State {
	spec, ord := fr.loopSpec(x)
	bodyPos := x.Body.Lbrace + 1
	xt := fr.typeOf(x.X)
	if xt == nil {
		fr.unsupported(x.Pos(), "range over untyped expression")
		return nil
	}
	if cl, ok := ast.Unparen(x.X).(*ast.CompositeLit); ok && spec == nil {
		if r, done := fr.execRangeLiteral(s, x, cl, label); done {
			return r
		}
	}
	coll := fr.eval(s, x.X)
	if p, ok := coll.T.Underlying().(*types.Pointer); ok {
		if _, ok := p.Elem().Underlying().(*types.Array); ok {
			coll = fr.deref(s, coll, x.Pos())
		}
	}
	keyName, valName := "", ""
	var keyObj, valObj *types.Var
	define := x.Tok == token.DEFINE
	if id, ok := x.Key.(*ast.Ident); ok && id.Name != "_" {
		keyName = id.Name
		keyObj, _ = fr.info.ObjectOf(id).(*types.Var)
	}
	if id, ok := x.Value.(*ast.Ident); ok && id.Name != "_" {
		valName = id.Name
		valObj, _ = fr.info.ObjectOf(id).(*types.Var)
	}
	_ = valName
	_ = define

	switch u := coll.T.Underlying().(type) {
	case *types.Map:
		return fr.execRangeMap(s, x, label, coll, u, keyObj, valObj, spec, ord)
	case *types.Slice, *types.Array, *types.Basic:
		_ = u
	default:
		fr.unsupported(x.Pos(), "range over "+coll.T.String())
		return nil
	}
	var n string
	isInt := false
	isString := false
	if b, ok := coll.T.Underlying().(*types.Basic); ok {
		if b.Info()&types.IsInteger != 0 {
			isInt = true
			n = coll.S
		} else {
			isString = true
			n = "(seq.len " + coll.S + ")"
		}
	} else {
		n = fr.vc.define("rangelen", "Int", fr.lenOf(s, coll))
	}
	// hidden counter
	extra := func(k string) map[string]*Val {
		m := map[string]*Val{"idx_": {T: intT, S: k}}
		if keyName != "" {
			m[keyName] = &Val{T: intT, S: k}
		}
		return m
	}
	if spec != nil && !isInt && !isString && !fr.loopSpecUsable(s, spec, bodyPos, extra("0"), ord) {
		return fr.unrollRange(s, x, label, coll, n, keyObj, valObj, define)
	}
	if spec != nil {
		for i, inv := range spec.Invariants {
			t := fr.evalClause(s, inv, bodyPos, extra("0"))
			fr.vc.oblige(s, fmt.Sprintf("inv-entry.L%d.", ord), t, x.Pos(), fmt.Sprintf("loop %d invariant %d on entry: %s", ord, i+1, inv.Text))
		}
	}
	ms := fr.modOf(x.Body)
	if keyObj != nil {
		ms.vars[keyObj] = true
	}
	if valObj != nil {
		ms.vars[valObj] = true
	}
	head := s.clone()
	fr.havocMod(head, ms)
	k := fr.vc.declare("k", "Int")
	head.assume(fmt.Sprintf("(and (<= 0 %s) (<= %s %s))", k, k, n))
	if spec != nil {
		for _, inv := range spec.Invariants {
			head.assume(fr.evalClause(head, inv, bodyPos, extra(k)))
		}
	}
	sb := head.fork(fmt.Sprintf("(< %s %s)", k, n))
	sx := head.fork(fmt.Sprintf("(>= %s %s)", k, n))
	// bind key / value
	if keyObj != nil {
		kv := &Val{T: keyObj.Type(), S: k}
		if define {
			fr.declVar(sb, keyObj, kv)
		} else {
			fr.writeVar(sb, keyObj, kv)
		}
	}
	if x.Value != nil && !isInt {
		var ev *Val
		if isString {
			fr.imprecise(x.Pos(), "range over string yields runes")
			ev = fr.freshVal(sb, types.Typ[types.Rune], "rune")
		} else {
			ev = fr.indexVal(sb, coll, &Val{T: intT, S: k}, x.Pos())
		}
		if valObj != nil {
			if define {
				fr.declVar(sb, valObj, ev)
			} else {
				fr.writeVar(sb, valObj, ev)
			}
		} else if id, ok := x.Value.(*ast.Ident); !ok || id.Name != "_" {
			fr.assign(sb, x.Value, ev, x.Pos())
		}
	}
	lc := fr.pushLoop(label, false)
	lc.spec, lc.ord = spec, ord
	lc.extra = extra(k) // in hints, idx_ is the index of the element being processed
	end := fr.execBlock(sb, x.Body.List)
	fr.stepHints(end, lc, x.Body.Rbrace)
	fr.popLoop()
	cont := mergeAll(append([]*State{end}, lc.continues...))
	if cont != nil && spec != nil {
		k1 := fmt.Sprintf("(+ %s 1)", k)
		if isString {
			// rune width unknown: next index is anywhere in (k, n]
			nk := fr.vc.declare("k", "Int")
			cont.assume(fmt.Sprintf("(and (< %s %s) (<= %s %s))", k, nk, nk, n))
			k1 = nk
		}
		for i, inv := range spec.Invariants {
			t := fr.evalClause(cont, inv, bodyPos, extra(k1))
			fr.vc.oblige(cont, fmt.Sprintf("inv-step.L%d.", ord), t, x.Pos(), fmt.Sprintf("loop %d invariant %d preserved: %s", ord, i+1, inv.Text))
		}
	}
	// after the loop the key variable (if assigned with =) holds n-1; with := it is out of scope
	outs := append([]*State{}, lc.breaks...)
	sx.assume(eq(k, n))
	if spec != nil {
		// make the exit facts available under the key name for later clauses: nothing to bind
	}
	outs = append(outs, sx)
	return mergeAll(outs)
}

// execRangeMap: iteration over a map in unspecified order. The body is executed for an arbitrary key that
// is present in the map; the invariant must hold before and after each iteration.
func (fr *Frame) execRangeMap(s *State, x *ast.RangeStmt, label string, coll *Val, mt *types.Map, keyObj, valObj *types.Var, spec *LoopSpec, ord int) *State {
	bodyPos := x.Body.Lbrace + 1
	define := x.Tok == token.DEFINE
	vn, vs, dn, ds := fr.eng.mapHeaps(mt)
	ks := fr.eng.sortOf(mt.Key())
	// ghost: set of keys already visited
	seen0 := fmt.Sprintf("((as const (Array %s Bool)) false)", ks)
	seenT := types.NewMap(mt.Key(), types.Typ[types.Bool])
	_ = seenT
	// ghost: iter_ = number of keys visited so far (a map holds at most 2^62 entries)
	iterCur := "0"
	extra := func(seen string) map[string]*Val {
		return map[string]*Val{"seen_": {T: types.NewArray(types.Typ[types.Bool], 0), S: seen}, "iter_": {T: intT, S: iterCur}}
	}
	if spec != nil {
		for i, inv := range spec.Invariants {
			t := fr.evalClause(s, inv, bodyPos, extra(seen0))
			fr.vc.oblige(s, fmt.Sprintf("inv-entry.L%d.", ord), t, x.Pos(), fmt.Sprintf("loop %d invariant %d on entry: %s", ord, i+1, inv.Text))
		}
	}
	ms := fr.modOf(x.Body)
	if keyObj != nil {
		ms.vars[keyObj] = true
	}
	if valObj != nil {
		ms.vars[valObj] = true
	}
	head := s.clone()
	fr.havocMod(head, ms)
	seen := fr.vc.declare("seen", fmt.Sprintf("(Array %s Bool)", ks))
	iterCur = fr.vc.declare("iter", "Int")
	iterHead := iterCur
	head.assume(fmt.Sprintf("(and (<= 0 %s) (<= %s 4611686018427387904))", iterCur, iterCur))
	if spec != nil {
		for _, inv := range spec.Invariants {
			head.assume(fr.evalClause(head, inv, bodyPos, extra(seen)))
		}
	}
	// an arbitrary unvisited key present in the map
	kk := fr.freshVal(head, mt.Key(), "key")
	present := fmt.Sprintf("(and (not (= %s 0)) (select (select %s %s) %s) (not (select %s %s)))", coll.S, head.heap(dn, ds), coll.S, kk.S, seen, kk.S)
	more := fr.vc.declare("more", "Bool") // whether an unvisited key remains
	head.assume(implies(more, present))
	// when no more keys: every present key has been visited
	head.assume(implies(not(more), fmt.Sprintf("(forall ((q %s)) (! (=> (and (not (= %s 0)) (select (select %s %s) q)) (select %s q)) :pattern ((select (select %s %s) q)) :pattern ((select %s q))))",
		ks, coll.S, head.heap(dn, ds), coll.S, seen, head.heap(dn, ds), coll.S, seen)))
	sb := head.fork(more)
	sx := head.fork(not(more))
	sb.assume(fmt.Sprintf("(< %s 4611686018427387904)", iterHead))
	if keyObj != nil {
		if define {
			fr.declVar(sb, keyObj, kk)
		} else {
			fr.writeVar(sb, keyObj, kk)
		}
	}
	if valObj != nil {
		ev := fr.readFact(sb, &Val{T: mt.Elem(), S: fmt.Sprintf("(select (select %s %s) %s)", sb.heap(vn, vs), coll.S, kk.S)})
		if define {
			fr.declVar(sb, valObj, ev)
		} else {
			fr.writeVar(sb, valObj, ev)
		}
	}
	lc := fr.pushLoop(label, false)
	lc.spec, lc.ord = spec, ord
	end := fr.execBlock(sb, x.Body.List)
	fr.stepHints(end, lc, x.Body.Rbrace)
	fr.popLoop()
	cont := mergeAll(append([]*State{end}, lc.continues...))
	if cont != nil && spec != nil {
		seen1 := fmt.Sprintf("(store %s %s true)", seen, kk.S)
		iterCur = fmt.Sprintf("(+ %s 1)", iterHead)
		for i, inv := range spec.Invariants {
			t := fr.evalClause(cont, inv, bodyPos, extra(seen1))
			fr.vc.oblige(cont, fmt.Sprintf("inv-step.L%d.", ord), t, x.Pos(), fmt.Sprintf("loop %d invariant %d preserved: %s", ord, i+1, inv.Text))
		}
	}
	outs := append([]*State{}, lc.breaks...)
	outs = append(outs, sx)
	return mergeAll(outs)
}

// execRangeLiteral unrolls `for k, v := range []T{e1, ..., en}` exactly (the literal has a fixed length, so
// no invariant is needed): the elements are evaluated once, in order, then the body runs n times.
func (fr *Frame) execRangeLiteral(s *State, x *ast.RangeStmt, cl *ast.CompositeLit, label string) (*State, bool) {
	t := fr.typeOf(cl)
	if t == nil {
		return nil, false
	}
	var et types.Type
	switch u := t.Underlying().(type) {
	case *types.Slice:
		et = u.Elem()
	case *types.Array:
		et = u.Elem()
	default:
		return nil, false
	}
	if isByte(et) || len(cl.Elts) > 64 {
		return nil, false
	}
	for _, el := range cl.Elts {
		if _, keyed := el.(*ast.KeyValueExpr); keyed {
			return nil, false
		}
	}
	var elems []*Val
	for _, el := range cl.Elts {
		elems = append(elems, fr.convertTo(s, fr.evalElt(s, el, et), et))
	}
	var keyObj, valObj *types.Var
	if id, ok := x.Key.(*ast.Ident); ok && id.Name != "_" {
		keyObj, _ = fr.info.ObjectOf(id).(*types.Var)
	}
	if id, ok := x.Value.(*ast.Ident); ok && id.Name != "_" {
		valObj, _ = fr.info.ObjectOf(id).(*types.Var)
	}
	define := x.Tok == token.DEFINE
	lc := fr.pushLoop(label, false)
	defer fr.popLoop()
	cur := s
	for i, ev := range elems {
		if cur == nil {
			break
		}
		if keyObj != nil {
			kv := &Val{T: keyObj.Type(), S: fmt.Sprintf("%d", i)}
			if define {
				fr.declVar(cur, keyObj, kv)
			} else {
				fr.writeVar(cur, keyObj, kv)
			}
		}
		if valObj != nil {
			if define {
				fr.declVar(cur, valObj, ev)
			} else {
				fr.writeVar(cur, valObj, ev)
			}
		}
		lc.continues = nil
		end := fr.execBlock(cur, x.Body.List)
		cur = mergeAll(append([]*State{end}, lc.continues...))
	}
	outs := append([]*State{}, lc.breaks...)
	if cur != nil {
		outs = append(outs, cur)
	}
	return mergeAll(outs), true
}

const unrollBound = 4
const unrollBoundFor = 34

// loopSpecUsable: do all clauses of the loop's specification still evaluate in the current source? A clause that
// names a variable that no longer exists (the loop was rewritten) makes the specification stale.
func (fr *Frame) loopSpecUsable(s *State, spec *LoopSpec, pos token.Pos, extra map[string]*Val, ord int) bool {
	cls := append([]*Clause{}, spec.Invariants...)
	if spec.Decreases != nil {
		cls = append(cls, spec.Decreases)
	}
	for _, c := range cls {
		var side []string
		env := fr.specEnvAt(s.clone(), pos, extra)
		env.side = &side
		env.evalBool(c.E)
		if env.err != nil {
			fr.vc.stale = append(fr.vc.stale, fmt.Sprintf("loop %d of %s: %v", ord, fr.vc.fn, env.err))
			fr.eng.staleLoops = append(fr.eng.staleLoops, fmt.Sprintf("%s loop %d: %v (bounded fallback: for loops unrolled %d times, range loops %d times)", fr.vc.fn, ord, env.err, unrollBoundFor, unrollBound))
			return false
		}
	}
	return true
}

// unrollFor executes a for loop exactly for up to unrollBound iterations; longer executions are cut (assumed
// not to happen). Used only when the loop's invariants are stale: a bounded stand-in, never counted as proof.
func (fr *Frame) unrollFor(s *State, x *ast.ForStmt, label string) *State {
	var outs []*State
	cur := s
	// counting loops with small constant bounds (e.g. "at most 32 anchors") are covered completely
	for it := 0; it < unrollBoundFor && cur != nil; it++ {
		sb := cur
		if x.Cond != nil {
			c := fr.eval(cur, x.Cond)
			outs = append(outs, cur.fork(not(c.S)))
			sb = cur.fork(c.S)
		}
		lc := fr.pushLoop(label, false)
		end := fr.execBlock(sb, x.Body.List)
		fr.popLoop()
		outs = append(outs, lc.breaks...)
		cont := mergeAll(append([]*State{end}, lc.continues...))
		if cont != nil && x.Post != nil {
			cont = fr.execStmt(cont, x.Post, "")
		}
		cur = cont
	}
	if cur != nil && x.Cond != nil {
		c := fr.eval(cur, x.Cond)
		outs = append(outs, cur.fork(not(c.S)))
	}
	return mergeAll(outs)
}

func (fr *Frame) unrollRange(s *State, x *ast.RangeStmt, label string, coll *Val, n string, keyObj, valObj *types.Var, define bool) *State {
	var outs []*State
	cur := s
	for it := 0; it < unrollBound && cur != nil; it++ {
		k := fmt.Sprintf("%d", it)
		outs = append(outs, cur.fork(fmt.Sprintf("(>= %s %s)", k, n)))
		sb := cur.fork(fmt.Sprintf("(< %s %s)", k, n))
		if keyObj != nil {
			kv := &Val{T: keyObj.Type(), S: k}
			if define {
				fr.declVar(sb, keyObj, kv)
			} else {
				fr.writeVar(sb, keyObj, kv)
			}
		}
		if x.Value != nil {
			ev := fr.indexVal(sb, coll, &Val{T: intT, S: k}, x.Pos())
			if valObj != nil {
				if define {
					fr.declVar(sb, valObj, ev)
				} else {
					fr.writeVar(sb, valObj, ev)
				}
			} else if id, ok := x.Value.(*ast.Ident); !ok || id.Name != "_" {
				fr.assign(sb, x.Value, ev, x.Pos())
			}
		}
		lc := fr.pushLoop(label, false)
		end := fr.execBlock(sb, x.Body.List)
		fr.popLoop()
		outs = append(outs, lc.breaks...)
		cur = mergeAll(append([]*State{end}, lc.continues...))
	}
	if cur != nil {
		outs = append(outs, cur.fork(fmt.Sprintf("(>= %d %s)", unrollBound, n)))
	}
	return mergeAll(outs)
}

// fieldFuncHeaps: the heaps a call through a func-typed struct field may modify, when the field is declared with
// a fieldfunc directive (hashconcat: none; assigns: the named heaps).
func (fr *Frame) fieldFuncHeaps(f *ast.SelectorExpr, info *types.Info) (map[string]string, bool) {
	sel, ok := info.Selections[f]
	if !ok || sel.Kind() != types.FieldVal || fr.eng.fieldFuncs == nil {
		return nil, false
	}
	rt := sel.Recv()
	if p, ok := rt.Underlying().(*types.Pointer); ok {
		rt = p.Elem()
	}
	named, ok := rt.(*types.Named)
	if !ok || named.Obj().Pkg() == nil {
		return nil, false
	}
	key := named.Obj().Pkg().Path() + "." + named.Obj().Name() + "." + sel.Obj().Name()
	mode, ok := fr.eng.fieldFuncs[key]
	if !ok {
		return nil, false
	}
	out := map[string]string{}
	if strings.HasPrefix(mode, "assigns") {
		dummy := &Contract{Pkg: named.Obj().Pkg().Path()}
		for _, d := range splitTop(strings.TrimPrefix(mode, "assigns"), ",") {
			d = strings.TrimSpace(d)
			if d == "" || d == "nothing" {
				continue
			}
			hs, err := fr.eng.designatorHeaps(dummy, nil, d)
			if err != nil {
				return nil, false
			}
			for k, v := range hs {
				out[k] = v
			}
		}
	}
	return out, true
}

// bigReceiverFresh: the receiver of this math/big method call is, at the root of its call chain, a freshly
// allocated object: new(big.Int), big.NewInt(..), or a chain of math/big methods on one of those (they return
// their receiver). Package-level functions of math/big (NewInt) allocate.
func bigReceiverFresh(call *ast.CallExpr, info *types.Info) bool {
	sel, ok := ast.Unparen(call.Fun).(*ast.SelectorExpr)
	if !ok {
		return false
	}
	if _, isSel := info.Selections[sel]; !isSel {
		// package-level function such as big.NewInt
		return true
	}
	x := ast.Unparen(sel.X)
	for {
		c, ok := x.(*ast.CallExpr)
		if !ok {
			return false
		}
		if id, ok := ast.Unparen(c.Fun).(*ast.Ident); ok {
			if b, ok := info.Uses[id].(*types.Builtin); ok && b.Name() == "new" {
				return true
			}
			return false
		}
		s2, ok := ast.Unparen(c.Fun).(*ast.SelectorExpr)
		if !ok {
			return false
		}
		if sl, isSel := info.Selections[s2]; isSel {
			fn, ok := sl.Obj().(*types.Func)
			if !ok || fn.Pkg() == nil || fn.Pkg().Path() != "math/big" {
				return false
			}
			// methods that return a different object than their receiver are not chains
			switch fn.Name() {
			case "Cmp", "Sign", "String", "Bytes", "Uint64", "Int64", "IsUint64", "IsInt64", "BitLen", "Text":
				return false
			}
			x = ast.Unparen(s2.X)
			continue
		}
		if fn, ok := info.Uses[s2.Sel].(*types.Func); ok && fn.Pkg() != nil && fn.Pkg().Path() == "math/big" {
			return true // big.NewInt(...)
		}
		return false
	}
}
