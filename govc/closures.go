package main

// Closures used as predicates/orderings of library functions (sort.Search, sort.Slice): the closure body is
// evaluated once on symbolic arguments with definitions inlined, giving a term that can be instantiated under
// quantifiers by substitution.

import (
	"fmt"
	"go/types"
	"strings"
)

func isTokChar(c byte) bool {
	return c == '_' || c == '!' || c == '.' || c == '$' || c == '@' || c == '#' || (c >= 'a' && c <= 'z') || (c >= 'A' && c <= 'Z') || (c >= '0' && c <= '9')
}

// substToken replaces whole-token occurrences of name in term by repl.
func substToken(term, name, repl string) string {
	var b strings.Builder
	for i := 0; i < len(term); {
		if strings.HasPrefix(term[i:], name) && (i == 0 || !isTokChar(term[i-1])) && (i+len(name) == len(term) || !isTokChar(term[i+len(name)])) {
			b.WriteString(repl)
			i += len(name)
			continue
		}
		b.WriteByte(term[i])
		i++
	}
	return b.String()
}

// closureTerm evaluates c on fresh symbolic arguments (constrained by hyp) in a copy of s. The returned
// function instantiates the closure's first result for given argument terms. ok=false: the closure is not a
// pure expression of its arguments and the state (it declared fresh values), nothing may be assumed.
func (fr *Frame) closureTerm(s *State, c *Closure, paramTypes []types.Type, hyp func(args []string) string) (func(args ...string) string, bool) {
	var consts []string
	var vals []*Val
	for _, t := range paramTypes {
		n := fr.vc.declare("qa", fr.eng.sortOf(t))
		consts = append(consts, n)
		vals = append(vals, &Val{T: t, S: n})
	}
	sq := s.fork(hyp(consts))
	guard0 := sq.g
	saved := fr.vc.inlineDefs
	fr.vc.inlineDefs = true
	before := fr.vc.ndecl
	res := fr.callClosureVals(sq, c, vals)
	fr.vc.inlineDefs = saved
	if fr.vc.ndecl != before || len(res) == 0 || fr.vc.failed != nil {
		return nil, false
	}
	term := res[0].S
	if isAtom(guard0) && guard0 != "true" && guard0 != "false" {
		// the guard of the evaluation state (path condition and range hypothesis, stated over the symbolic
		// arguments) is supplied again by every use of the instantiated term
		term = substToken(term, guard0, "true")
	}
	return func(args ...string) string {
		t := term
		// two-step substitution through placeholders (arguments may mention each other's names)
		for i, cn := range consts {
			t = substToken(t, cn, fmt.Sprintf("@@%d@@", i))
		}
		for i := range consts {
			t = strings.ReplaceAll(t, fmt.Sprintf("@@%d@@", i), args[i])
		}
		return t
	}, true
}

// sortModel implements sort.Search and sort.Slice; ok=false when callee is neither.
func (fr *Frame) sortModel(s *State, f *types.Func, args []*Val) ([]*Val, bool) {
	n := fullName(f)
	switch n {
	case "sort.Search":
		fr.eng.trustedUsed["model:sort.Search (binary search: for a monotone predicate returns the least index satisfying it)"] = true
		cnt := args[0]
		r := fr.freshVal(s, intT, "search")
		s.assume(fmt.Sprintf("(and (<= 0 %s) (<= %s %s))", r.S, r.S, cnt.S))
		if args[1].Fn == nil {
			fr.imprecise(0, "sort.Search with a non-literal predicate")
			return []*Val{r}, true
		}
		inRange := func(a []string) string { return fmt.Sprintf("(and (<= 0 %s) (< %s %s))", a[0], a[0], cnt.S) }
		inst, ok := fr.closureTerm(s, args[1].Fn, []types.Type{intT}, inRange)
		if !ok {
			fr.imprecise(0, "sort.Search predicate is not a pure expression")
			return []*Val{r}, true
		}
		// obligation: the predicate is monotone on [0,n) (otherwise the result is only locally characterised)
		fr.vc.oblige(s, "pre", fmt.Sprintf("(forall ((qi Int) (qj Int)) (=> (and (<= 0 qi) (< qi qj) (< qj %s) %s) %s))", cnt.S, inst("qi"), inst("qj")), 0,
			"sort.Search: the predicate is monotone (false ... false true ... true) on [0,n)")
		s.assume(fmt.Sprintf("(forall ((qi Int)) (=> (and (<= 0 qi) (< qi %s)) (not %s)))", r.S, inst("qi")))
		s.assume(fmt.Sprintf("(=> (< %s %s) %s)", r.S, cnt.S, inst(r.S)))
		return []*Val{r}, true
	case "sort.Slice", "sort.SliceStable":
		fr.eng.trustedUsed["model:"+n+" (result is a permutation of the slice, sorted by the given strict weak order)"] = true
		x := args[0]
		if x.Dyn != nil {
			x = x.Dyn
		}
		st, isSlice := x.T.Underlying().(*types.Slice)
		if !isSlice || isByte(st.Elem()) {
			fr.havocEverything(s)
			return nil, true
		}
		hn, hs := fr.eng.elemHeap(st.Elem())
		es := fr.eng.sortOf(st.Elem())
		h := s.heap(hn, hs)
		oldArr := fr.vc.define("sortold", fmt.Sprintf("(Array Int %s)", es), fmt.Sprintf("(select %s (sl_ref %s))", h, x.S))
		newArr := fr.vc.declare("sorted", fmt.Sprintf("(Array Int %s)", es))
		off := "(sl_off " + x.S + ")"
		ln := "(sl_len " + x.S + ")"
		// cells outside the window are unchanged; inside, a permutation of the old contents
		s.assume(fmt.Sprintf("(forall ((j Int)) (! (=> (or (< j %s) (>= j (+ %s %s))) (= (select %s j) (select %s j))) :pattern ((select %s j))))", off, off, ln, newArr, oldArr, newArr))
		perm := fr.vc.declare("perm", "(Array Int Int)")
		s.assume(fmt.Sprintf("(forall ((i Int)) (! (=> (and (<= 0 i) (< i %s)) (and (<= 0 (select %s i)) (< (select %s i) %s) (= (select %s (ix %s i)) (select %s (ix %s (select %s i)))))) :pattern ((select %s (ix %s i)))))",
			ln, perm, perm, ln, newArr, off, oldArr, off, perm, newArr, off))
		s.assume(fmt.Sprintf("(forall ((i Int) (j Int)) (=> (and (<= 0 i) (< i j) (< j %s)) (not (= (select %s i) (select %s j)))))", ln, perm, perm))
		s.setHeap(hn, hs, fmt.Sprintf("(store %s (sl_ref %s) %s)", h, x.S, newArr))
		if args[1].Fn == nil {
			fr.imprecise(0, "sort.Slice with a non-literal ordering")
			return nil, true
		}
		inRange := func(a []string) string {
			return fmt.Sprintf("(and (<= 0 %s) (< %s %s) (<= 0 %s) (< %s %s))", a[0], a[0], ln, a[1], a[1], ln)
		}
		inst, ok := fr.closureTerm(s, args[1].Fn, []types.Type{intT, intT}, inRange)
		if !ok {
			fr.imprecise(0, "sort.Slice ordering is not a pure expression")
			return nil, true
		}
		rng := func(vs ...string) string {
			var cs []string
			for _, v := range vs {
				cs = append(cs, fmt.Sprintf("(<= 0 %s) (< %s %s)", v, v, ln))
			}
			return "(and " + strings.Join(cs, " ") + ")"
		}
		// obligations: strict weak order (on the elements at hand)
		fr.vc.oblige(s, "pre", fmt.Sprintf("(forall ((qi Int)) (=> %s (not %s)))", rng("qi"), inst("qi", "qi")), 0, n+": the ordering is irreflexive")
		fr.vc.oblige(s, "pre", fmt.Sprintf("(forall ((qi Int) (qj Int) (qk Int)) (=> (and %s %s %s) %s))", rng("qi", "qj", "qk"), inst("qi", "qj"), inst("qj", "qk"), inst("qi", "qk")), 0, n+": the ordering is transitive")
		fr.vc.oblige(s, "pre", fmt.Sprintf("(forall ((qi Int) (qj Int) (qk Int)) (=> (and %s (not %s) (not %s)) (not %s)))", rng("qi", "qj", "qk"), inst("qi", "qj"), inst("qj", "qk"), inst("qi", "qk")), 0, n+": incomparability is transitive")
		s.assume(fmt.Sprintf("(forall ((qi Int) (qj Int)) (! (=> (and (<= 0 qi) (< qi qj) (< qj %s)) (not %s)) :pattern ((select %s (ix %s qi)) (select %s (ix %s qj)))))",
			ln, inst("qj", "qi"), newArr, off, newArr, off))
		return nil, true
	}
	return nil, false
}

func isSortModel(f *types.Func) bool {
	switch fullName(f) {
	case "sort.Search", "sort.Slice", "sort.SliceStable":
		return true
	}
	return false
}
