package main

// Verification-condition context: symbolic state, guarded facts, obligations.

import (
	"fmt"
	"os"
	"path/filepath"
	"runtime/debug"
	"go/constant"
	"go/token"
	"go/types"
	"sort"
	"strings"
)

type Val struct {
	T     types.Type
	S     string
	Multi []*Val
	Fn    *Closure
	Const constant.Value
	Dyn   *Val // for interface values created by boxing: the concrete value
	// Sub: for a slice value obtained as base[lo:...]: the base slice's offset term and lo; element i then lives at
	// (ix baseOff (+ lo i)), which lets facts stated over the base slice's elements match syntactically
	Sub *[2]string
	// RawSort: for specification-only values that are not Go values (heap snapshots): their SMT sort
	RawSort string
}

type Closure struct {
	Lit   interface{} // *ast.FuncLit
	Frame *Frame
}

type Obligation struct {
	Name    string
	Kind    string
	Func    string // function key under verification
	Pos     string
	Desc    string
	Guard   string
	Goal    string
	NFacts  int
	Extra   []string // extra assumptions (known-finding exclusions)
	Inputs  []InputSym
	Result  *SolveResult
	Cover   bool // satisfiability expected (vacuity check)
	pruneQuery bool // synchronous feasibility query of `prune`: first definite answer wins
	Bounded int
	VCID    int
	vc      *VC
	KF      *KnownFinding
	KFWitness bool
}

type InputSym struct {
	Name string // Go-level name
	Sym  string // SMT term
	Type string // Go type string
}

type VC struct {
	eng      *Engine
	id       int
	fn       string
	facts    []string
	obls     []*Obligation
	counters map[string]int
	heapSort map[string]string // heap name -> sort
	wrapping bool
	next0    string // allocation counter at entry
	prune    bool
	nPruned  int
	inputs   []InputSym
	failed   error
	loopOrd  int
	excl     map[string]exclusion
	replayFn    *FuncInfo
	replayLemma *Lemma
	globalsDone map[types.Object]bool
	stale       []string // loops whose invariants no longer evaluate (executed by bounded unrolling instead)
	noSafety    bool // safety obligations (nil, idx, slice, div, panic, ovf, conv, ...) are assumed instead of proved
	ndecl       int  // number of declared constants (to detect impure closure evaluation)
	inlineDefs  bool // define() returns the term itself (closure-as-predicate evaluation)
}

type exclusion struct {
	term string
	kf   *KnownFinding
}

type State struct {
	vc     *VC
	g      string
	vars   map[types.Object]*Val
	boxed  map[types.Object]string
	heaps  map[string]string
	epoch  int
	next   string
	defers []deferred
}

type deferred struct {
	run func(s *State)
}

func (e *Engine) newVC(fn string) *VC {
	e.nfresh++
	return &VC{eng: e, id: e.nfresh, fn: fn, counters: map[string]int{}, heapSort: map[string]string{}}
}

func (vc *VC) declare(prefix, sort string) string {
	vc.ndecl++
	n := vc.eng.fresh(prefix)
	vc.eng.syms.add(n, fmt.Sprintf("(declare-fun %s () %s)", n, sort))
	return n
}

func (vc *VC) define(prefix, sort, term string) string {
	if isAtom(term) || vc.inlineDefs {
		return term
	}
	n := vc.eng.fresh(prefix)
	vc.eng.syms.add(n, fmt.Sprintf("(define-fun %s () %s %s)", n, sort, term))
	return n
}

func isAtom(t string) bool {
	return !strings.ContainsAny(t, " (")
}

// small keeps short terms inline and names long ones.
func (vc *VC) small(prefix, sort, term string) string {
	if len(term) <= 48 {
		return term
	}
	return vc.define(prefix, sort, term)
}

func (vc *VC) newState() *State {
	s := &State{vc: vc, g: "true", vars: map[types.Object]*Val{}, boxed: map[types.Object]string{}, heaps: map[string]string{}}
	s.next = vc.declare("next0", "Int")
	vc.next0 = s.next
	vc.facts = append(vc.facts, "(> "+s.next+" 0)")
	return s
}

func (s *State) clone() *State {
	c := &State{vc: s.vc, g: s.g, vars: make(map[types.Object]*Val, len(s.vars)), boxed: make(map[types.Object]string, len(s.boxed)),
		heaps: make(map[string]string, len(s.heaps)), epoch: s.epoch, next: s.next}
	for k, v := range s.vars {
		c.vars[k] = v
	}
	for k, v := range s.boxed {
		c.boxed[k] = v
	}
	for k, v := range s.heaps {
		c.heaps[k] = v
	}
	c.defers = append([]deferred(nil), s.defers...)
	return c
}

// fork returns a copy of s whose guard is strengthened by cond.
func (s *State) fork(cond string) *State {
	c := s.clone()
	c.g = s.vc.define("g", "Bool", and(s.g, cond))
	return c
}

func (s *State) assume(fact string) {
	if fact == "true" {
		return
	}
	if dbg := os.Getenv("GOVC_DEBUG_FACT"); dbg != "" && strings.Contains(fact, dbg) {
		debug.PrintStack()
	}
	s.vc.facts = append(s.vc.facts, implies(s.g, fact))
}

// heap returns the current term of heap `name` (creating the initial symbol on demand).
func (s *State) heap(name, sort string) string {
	if t, ok := s.heaps[name]; ok {
		return t
	}
	vc := s.vc
	if old, ok := vc.heapSort[name]; ok && old != sort {
		panic(fmt.Sprintf("heap %s used at sorts %s and %s", name, old, sort))
	}
	vc.heapSort[name] = sort
	ep := s.epoch
	if strings.HasPrefix(name, "GC:") {
		ep = 0
	}
	return vc.initHeap(name, sort, ep)
}

func (vc *VC) initHeap(name, sort string, epoch int) string {
	n := fmt.Sprintf("%s!h%d_%d", sanitizeSym(name), vc.id, epoch)
	if _, ok := vc.eng.syms.syms[n]; !ok {
		bound := ""
		if epoch == 0 && os.Getenv("GOVC_NOBOUND") == "" {
			bound = vc.next0
		}
		vc.eng.syms.add(n, fmt.Sprintf("(declare-fun %s () %s)", n, sort)+nilMapAxiom(name, n, sort)+vc.eng.heapWellTypedBound(name, n, bound))
	}
	return n
}

// nilMapAxiom: the nil map (reference 0) has no keys.
func nilMapAxiom(name, sym, sort string) string {
	if !strings.HasPrefix(name, "D:") || !strings.HasPrefix(sort, "(Array Int (Array ") || !strings.HasSuffix(sort, " Bool))") {
		return ""
	}
	ks := strings.TrimSuffix(strings.TrimPrefix(sort, "(Array Int (Array "), " Bool))")
	return fmt.Sprintf("\n(assert (forall ((k %s)) (! (not (select (select %s 0) k)) :pattern ((select (select %s 0) k)))))", ks, sym, sym)
}

func (s *State) setHeap(name, sort, term string) {
	s.vc.heapSort[name] = sort
	s.heaps[name] = s.vc.define(sanitizeSym(name), sort, term)
}

// havocAll forgets everything about the heap and mutable globals.
func (s *State) havocAll() {
	if dbg := os.Getenv("GOVC_DEBUG_HAVOC"); dbg != "" && strings.Contains(s.vc.fn, dbg) {
		debug.PrintStack()
	}
	// ghost heaps before the havoc (read with the old epoch)
	oldGhost := map[string]string{}
	for k, srt := range s.vc.heapSort {
		if strings.HasPrefix(k, "Q:") {
			oldGhost[k] = s.heap(k, srt)
		}
	}
	s.vc.eng.nfresh++
	s.epoch = s.vc.eng.nfresh
	// constant globals keep their value
	nh := map[string]string{}
	for k, v := range s.heaps {
		if strings.HasPrefix(k, "GC:") {
			nh[k] = v
		}
	}
	// ghost sets only grow: whatever unknown code ran, the members recorded so far are still members
	for k, srt := range s.vc.heapSort {
		if !strings.HasPrefix(k, "Q:") {
			continue
		}
		old := oldGhost[k]
		nw := s.vc.declare(sanitizeSym(k)+"_hv", srt)
		es := "(Seq Int)"
		if strings.Contains(srt, "(Array Int Bool)") {
			es = "Int"
		}
		s.assume(fmt.Sprintf("(forall ((o Int) (e %s)) (! (=> (select (select %s o) e) (select (select %s o) e)) :pattern ((select (select %s o) e))))", es, old, nw, nw))
		nh[k] = nw
	}
	s.heaps = nh
}

// growGhost replaces a ghost-set heap by an unknown superset of it.
func (s *State) growGhost(name, srt string) {
	old := s.heap(name, srt)
	nw := s.vc.declare(sanitizeSym(name)+"_hv", srt)
	es := "(Seq Int)"
	if strings.Contains(srt, "(Array Int Bool)") {
		es = "Int"
	}
	s.assume(fmt.Sprintf("(forall ((o Int) (e %s)) (! (=> (select (select %s o) e) (select (select %s o) e)) :pattern ((select (select %s o) e))))", es, old, nw, nw))
	s.heaps[name] = nw
	s.vc.heapSort[name] = srt
}

func (s *State) havocHeap(name, sort string) {
	s.heaps[name] = s.vc.declare(sanitizeSym(name)+"_hv", sort)
	if ax := nilMapAxiom(name, s.heaps[name], sort) + s.vc.eng.heapWellTyped(name, s.heaps[name]); ax != "" {
		sy := s.vc.eng.syms.syms[s.heaps[name]]
		sy.Text += ax
	}
	s.vc.heapSort[name] = sort
}

// alloc returns a fresh reference.
func (s *State) alloc() string {
	r := s.next
	s.next = s.vc.define("next", "Int", "(+ "+s.next+" 1)")
	return r
}

// merge joins two states (either may be nil).
func mergeStates(a, b *State) *State {
	if a == nil {
		return b
	}
	if b == nil {
		return a
	}
	vc := a.vc
	m := &State{vc: vc, vars: map[types.Object]*Val{}, boxed: map[types.Object]string{}, heaps: map[string]string{}}
	m.g = vc.define("g", "Bool", or(a.g, b.g))
	for k, va := range a.vars {
		vb, ok := b.vars[k]
		if !ok {
			continue // out of scope on one side
		}
		if va == vb || va.S == vb.S {
			m.vars[k] = va
			continue
		}
		if va.Fn != nil || vb.Fn != nil {
			continue
		}
		sort := vc.eng.sortOf(va.T)
		m.vars[k] = &Val{T: va.T, S: vc.define(k.Name(), sort, ite(a.g, va.S, vb.S))}
	}
	for k, ra := range a.boxed {
		if rb, ok := b.boxed[k]; ok {
			if ra == rb {
				m.boxed[k] = ra
			} else {
				m.boxed[k] = vc.define(k.Name()+"_box", "Int", ite(a.g, ra, rb))
			}
		}
	}
	if a.epoch == b.epoch {
		m.epoch = a.epoch
	} else {
		vc.eng.nfresh++
		m.epoch = vc.eng.nfresh
	}
	names := map[string]bool{}
	for k := range a.heaps {
		names[k] = true
	}
	for k := range b.heaps {
		names[k] = true
	}
	if a.epoch != b.epoch {
		for k := range vc.heapSort {
			names[k] = true
		}
	}
	var ns []string
	for k := range names {
		ns = append(ns, k)
	}
	sort.Strings(ns)
	for _, k := range ns {
		srt := vc.heapSort[k]
		ta := a.heap(k, srt)
		tb := b.heap(k, srt)
		if ta == tb {
			if _, ok := a.heaps[k]; ok || a.epoch != m.epoch {
				m.heaps[k] = ta
			}
			continue
		}
		m.heaps[k] = vc.define(sanitizeSym(k), srt, ite(a.g, ta, tb))
	}
	if a.next == b.next {
		m.next = a.next
	} else {
		m.next = vc.define("next", "Int", ite(a.g, a.next, b.next))
	}
	// deferred calls: keep the longer list (defers registered on one branch only are rare; approximated)
	if len(a.defers) >= len(b.defers) {
		m.defers = append([]deferred(nil), a.defers...)
	} else {
		m.defers = append([]deferred(nil), b.defers...)
	}
	return m
}

func mergeAll(ss []*State) *State {
	var m *State
	for _, s := range ss {
		m = mergeStates(m, s)
	}
	return m
}

// mergeVals merges values attached to the states being merged: value i is valid under guard gs[i].
func (vc *VC) mergeVals(gs []string, vs []*Val) *Val {
	if len(vs) == 0 {
		return nil
	}
	res := vs[len(vs)-1]
	for i := len(vs) - 2; i >= 0; i-- {
		if vs[i].S == res.S {
			continue
		}
		res = &Val{T: vs[i].T, S: ite(gs[i], vs[i].S, res.S)}
	}
	if len(res.S) > 48 {
		res = &Val{T: res.T, S: vc.define("mv", vc.eng.sortOf(res.T), res.S)}
	}
	return res
}

// oblige records a proof obligation `goal` under the state's guard and then assumes it.
func (vc *VC) oblige(s *State, kind, goal string, pos token.Pos, desc string) *Obligation {
	if goal == "true" {
		return nil
	}
	if vc.noSafety {
		switch baseKind(kind) {
		case "nil", "idx", "slice", "div", "panic", "ovf", "conv", "assert-type", "nilmap", "make", "hashkey", "pre":
			vc.eng.assumptions["panic-freedom, overflow and callee-precondition obligations of "+vc.fn+" are assumed, not claimed (contract says nosafety)"] = true
			s.assume(goal)
			return nil
		}
	}
	vc.counters[kind]++
	o := &Obligation{
		Name:   fmt.Sprintf("%s#%s%d", vc.fn, kind, vc.counters[kind]),
		Kind:   kind,
		Func:   vc.fn,
		Pos:    vc.eng.posStr(pos),
		Desc:   desc,
		Guard:  s.g,
		Goal:   goal,
		NFacts: len(vc.facts),
		Inputs: vc.inputs,
		VCID:   vc.id,
		vc:     vc,
	}
	if ex, ok := vc.excl[o.Name]; ok {
		// known finding: the obligation must hold outside the recorded failing class; the unrestricted
		// twin tells whether the finding is still present
		w := *o
		w.Name = o.Name + "!kf"
		w.KF = ex.kf
		w.KFWitness = true
		vc.obls = append(vc.obls, &w)
		o.Extra = append(o.Extra, not(ex.term))
		o.KF = ex.kf
	}
	vc.obls = append(vc.obls, o)
	if len(vc.stale) > 0 && strings.HasPrefix(kind, "post") {
		// bounded fallback: quantified postconditions assumed for later obligations would keep the solvers from
		// returning the model that the fallback needs in order to report anything
		return o
	}
	s.assume(goal)
	return o
}

// cover records a satisfiability (non-vacuity) check.
func (vc *VC) cover(s *State, kind string, cond string, pos token.Pos, desc string) {
	vc.counters[kind]++
	o := &Obligation{
		Name:   fmt.Sprintf("%s#%s%d", vc.fn, kind, vc.counters[kind]),
		Kind:   kind,
		Func:   vc.fn,
		Pos:    vc.eng.posStr(pos),
		Desc:   desc,
		Guard:  s.g,
		Goal:   cond,
		NFacts: len(vc.facts),
		Cover:  true,
		VCID:   vc.id,
		vc:     vc,
	}
	vc.obls = append(vc.obls, o)
}

// infeasible asks the solvers (2 s) whether the path condition of s is refutable; only a definite `unsat` prunes.
func (vc *VC) infeasible(s *State) bool {
	if s == nil || s.g == "false" {
		return true
	}
	o := &Obligation{Name: fmt.Sprintf("%s#prune%d", vc.fn, vc.nPruned), Kind: "prune", Func: vc.fn, Guard: s.g, Goal: "true", NFacts: len(vc.facts), Cover: true, VCID: vc.id, vc: vc}
	vc.nPruned++
	dir := filepath.Join(os.TempDir(), fmt.Sprintf("govc-prune-%d", os.Getpid()))
	os.MkdirAll(dir, 0o755)
	defer os.RemoveAll(dir)
	o.pruneQuery = true
	r := solveObligation(o, dir, 2, false)
	return r != nil && r.Status == "unsat"
}

// query builds the SMT-LIB text for an obligation.
func (vc *VC) query(o *Obligation, forCvc5 bool) string {
	facts := vc.facts[:o.NFacts]
	var body strings.Builder
	for _, f := range facts {
		body.WriteString("(assert ")
		body.WriteString(f)
		body.WriteString(")\n")
	}
	for _, f := range o.Extra {
		body.WriteString("(assert " + f + ")\n")
	}
	body.WriteString("(assert " + o.Guard + ")\n")
	if o.Cover {
		body.WriteString("(assert " + o.Goal + ")\n")
	} else {
		body.WriteString("(assert (not " + o.Goal + "))\n")
	}
	bs := body.String()
	var inputs []string
	for _, in := range o.Inputs {
		inputs = append(inputs, in.Sym)
	}
	syms := vc.eng.syms.closure(bs, strings.Join(inputs, " "))
	var out strings.Builder
	if forCvc5 {
		out.WriteString("(set-option :produce-models true)\n(set-logic ALL)\n")
	} else {
		out.WriteString("(set-option :produce-models true)\n")
	}
	out.WriteString(prelude)
	for _, sy := range syms {
		out.WriteString(sy.Text)
		out.WriteByte('\n')
	}
	out.WriteString(bs)
	out.WriteString("(check-sat)\n")
	if !o.Cover && len(o.Inputs) > 0 {
		var gv []string
		for _, in := range o.Inputs {
			gv = append(gv, in.Sym)
		}
		out.WriteString("(get-value (" + strings.Join(gv, " ") + "))\n")
	}
	return out.String()
}
