package main

// Symbolic execution of statements.

import (
	"fmt"
	"go/ast"
	"go/token"
	"go/types"
)

// findBoxed returns the local variables whose address is taken (explicitly or via pointer-receiver method calls).
func findBoxed(body ast.Node, info *types.Info) map[types.Object]bool {
	out := map[types.Object]bool{}
	if body == nil {
		return out
	}
	mark := func(e ast.Expr) {
		for {
			switch x := ast.Unparen(e).(type) {
			case *ast.Ident:
				if o, ok := info.ObjectOf(x).(*types.Var); ok && o != nil && !o.IsField() {
					if o.Pkg() == nil || o.Parent() != o.Pkg().Scope() {
						out[o] = true
					}
				}
				return
			default:
				return
			}
		}
	}
	ast.Inspect(body, func(n ast.Node) bool {
		switch x := n.(type) {
		case *ast.UnaryExpr:
			if x.Op == token.AND {
				mark(x.X)
			}
		case *ast.CallExpr:
			if sel, ok := ast.Unparen(x.Fun).(*ast.SelectorExpr); ok {
				if s, ok := info.Selections[sel]; ok && s.Kind() == types.MethodVal {
					if f, ok := s.Obj().(*types.Func); ok {
						sig := f.Type().(*types.Signature)
						if sig.Recv() != nil {
							_, rp := sig.Recv().Type().Underlying().(*types.Pointer)
							xt := info.TypeOf(sel.X)
							if xt != nil {
								_, xp := xt.Underlying().(*types.Pointer)
								_, xi := xt.Underlying().(*types.Interface)
								if rp && !xp && !xi && len(s.Index()) == 1 {
									mark(sel.X)
								}
							}
						}
					}
				}
			}
		}
		return true
	})
	return out
}

func (fr *Frame) execBlock(s *State, stmts []ast.Stmt) *State {
	for _, st := range stmts {
		if s == nil {
			return nil
		}
		s = fr.execStmt(s, st, "")
	}
	return s
}

func (fr *Frame) execStmt(s *State, st ast.Stmt, label string) *State {
	if fr.vc.failed != nil || s.g == "false" {
		return nil
	}
	switch x := st.(type) {
	case *ast.ExprStmt:
		fr.evalMulti(s, x.X)
		if s.g == "false" {
			return nil
		}
		return s
	case *ast.AssignStmt:
		fr.execAssign(s, x)
		return s
	case *ast.DeclStmt:
		gd, ok := x.Decl.(*ast.GenDecl)
		if !ok || gd.Tok != token.VAR {
			return s
		}
		for _, sp := range gd.Specs {
			vs := sp.(*ast.ValueSpec)
			if len(vs.Values) == 0 {
				for _, n := range vs.Names {
					if o, ok := fr.info.Defs[n].(*types.Var); ok && o != nil {
						fr.declVar(s, o, &Val{T: o.Type(), S: fr.eng.zeroOf(o.Type())})
					}
				}
				continue
			}
			var vals []*Val
			if len(vs.Values) == 1 && len(vs.Names) > 1 {
				vals = fr.evalTuple(s, vs.Values[0], len(vs.Names))
			} else {
				for _, v := range vs.Values {
					vals = append(vals, fr.eval(s, v))
				}
			}
			for i, n := range vs.Names {
				if n.Name == "_" {
					continue
				}
				if o, ok := fr.info.Defs[n].(*types.Var); ok && o != nil && i < len(vals) {
					fr.declVar(s, o, vals[i])
				}
			}
		}
		return s
	case *ast.IncDecStmt:
		cur := fr.eval(s, x.X)
		op := token.ADD
		if x.Tok == token.DEC {
			op = token.SUB
		}
		nv := fr.binop(s, op, cur, &Val{T: cur.T, S: "1"}, cur.T, x.Pos())
		fr.assign(s, x.X, nv, x.Pos())
		return s
	case *ast.ReturnStmt:
		fr.execReturn(s, x)
		return nil
	case *ast.BlockStmt:
		return fr.execBlock(s, x.List)
	case *ast.IfStmt:
		return fr.execIf(s, x)
	case *ast.ForStmt:
		return fr.execFor(s, x, label)
	case *ast.RangeStmt:
		return fr.execRange(s, x, label)
	case *ast.SwitchStmt:
		return fr.execSwitch(s, x, label)
	case *ast.TypeSwitchStmt:
		return fr.execTypeSwitch(s, x, label)
	case *ast.LabeledStmt:
		return fr.execStmt(s, x.Stmt, x.Label.Name)
	case *ast.BranchStmt:
		return fr.execBranch(s, x)
	case *ast.DeferStmt:
		fr.execDefer(s, x)
		return s
	case *ast.GoStmt:
		// a concurrently running goroutine may change anything reachable: evaluate the arguments, havoc
		for _, a := range x.Call.Args {
			fr.eval(s, a)
		}
		fr.eng.assumptions["goroutines started by verified functions are abstracted by havoc of the whole heap"] = true
		fr.havocEverything(s)
		return s
	case *ast.EmptyStmt:
		return s
	case *ast.SendStmt:
		// channels are not modelled as queues; what is recorded is the last value sent on each channel (ghost,
		// readable as sent(ch) in specifications and by a sequential receive on the same channel)
		v := fr.eval(s, x.Value)
		ch := fr.eval(s, x.Chan)
		if ct, ok := fr.typeOf(x.Chan).Underlying().(*types.Chan); ok && v != nil && ch != nil {
			v = fr.convertTo(s, v, ct.Elem())
			hn, hs := fr.eng.chanHeap(ct.Elem())
			s.setHeap(hn, hs, fmt.Sprintf("(store %s %s %s)", s.heap(hn, hs), ch.S, v.S))
		}
		fr.eng.dropped["chan-send (recorded as last value sent)"]++
		return s
	case *ast.SelectStmt:
		fr.unsupported(x.Pos(), "select statement")
		return nil
	}
	fr.unsupported(st.Pos(), fmt.Sprintf("statement %T", st))
	return nil
}

func (fr *Frame) declVar(s *State, o *types.Var, v *Val) {
	v = fr.convertTo(s, v, o.Type())
	if fr.isBoxed(o) {
		// a new variable instance: fresh box
		ref := s.alloc()
		s.boxed[o] = ref
		hn, hs := fr.eng.ptrHeap(o.Type())
		s.setHeap(hn, hs, fmt.Sprintf("(store %s %s %s)", s.heap(hn, hs), ref, v.S))
		fr.initObject(s, o.Type(), ref)
		return
	}
	fr.writeVar(s, o, v)
}

// evalTuple evaluates an expression producing n values (call, comma-ok forms).
func (fr *Frame) evalTuple(s *State, e ast.Expr, n int) []*Val {
	e = ast.Unparen(e)
	switch x := e.(type) {
	case *ast.CallExpr:
		vs := fr.evalCall(s, x)
		if len(vs) == 1 && vs[0].Multi != nil {
			vs = vs[0].Multi
		}
		for len(vs) < n {
			vs = append(vs, &Val{T: types.Typ[types.Int], S: "0"})
		}
		return vs
	case *ast.IndexExpr:
		if n == 2 {
			return fr.evalIndex(s, x, true)
		}
	case *ast.TypeAssertExpr:
		if n == 2 {
			return fr.evalTypeAssert(s, x, true)
		}
	case *ast.UnaryExpr:
		if x.Op == token.ARROW {
			fr.unsupported(x.Pos(), "channel receive")
		}
	}
	fr.unsupported(e.Pos(), "tuple expression")
	var out []*Val
	for i := 0; i < n; i++ {
		out = append(out, &Val{T: types.Typ[types.Int], S: "0"})
	}
	return out
}

func (fr *Frame) execAssign(s *State, x *ast.AssignStmt) {
	// compound assignment
	if x.Tok != token.ASSIGN && x.Tok != token.DEFINE {
		ops := map[token.Token]token.Token{token.ADD_ASSIGN: token.ADD, token.SUB_ASSIGN: token.SUB, token.MUL_ASSIGN: token.MUL,
			token.QUO_ASSIGN: token.QUO, token.REM_ASSIGN: token.REM, token.AND_ASSIGN: token.AND, token.OR_ASSIGN: token.OR,
			token.XOR_ASSIGN: token.XOR, token.SHL_ASSIGN: token.SHL, token.SHR_ASSIGN: token.SHR, token.AND_NOT_ASSIGN: token.AND_NOT}
		op := ops[x.Tok]
		cur := fr.eval(s, x.Lhs[0])
		r := fr.eval(s, x.Rhs[0])
		nv := fr.binop(s, op, cur, r, cur.T, x.Pos())
		fr.assign(s, x.Lhs[0], nv, x.Pos())
		return
	}
	var vals []*Val
	if len(x.Rhs) == 1 && len(x.Lhs) > 1 {
		vals = fr.evalTuple(s, x.Rhs[0], len(x.Lhs))
	} else {
		for _, r := range x.Rhs {
			vals = append(vals, fr.eval(s, r))
		}
	}
	for i, l := range x.Lhs {
		if i >= len(vals) {
			break
		}
		if id, ok := l.(*ast.Ident); ok {
			if id.Name == "_" {
				continue
			}
			if x.Tok == token.DEFINE {
				if o, ok := fr.info.Defs[id].(*types.Var); ok && o != nil {
					fr.declVar(s, o, vals[i])
					continue
				}
			}
		}
		fr.assign(s, l, vals[i], x.Pos())
	}
}

// assign stores v into the location denoted by lhs.
func (fr *Frame) assign(s *State, lhs ast.Expr, v *Val, pos token.Pos) {
	switch x := ast.Unparen(lhs).(type) {
	case *ast.Ident:
		if x.Name == "_" {
			return
		}
		if o, ok := fr.info.ObjectOf(x).(*types.Var); ok && o != nil {
			fr.writeVar(s, o, v)
			return
		}
	case *ast.StarExpr:
		p := fr.eval(s, x.X)
		pt, ok := p.T.Underlying().(*types.Pointer)
		if !ok {
			break
		}
		fr.nilCheck(s, p, pos)
		v = fr.convertTo(s, v, pt.Elem())
		hn, hs := fr.eng.ptrHeap(pt.Elem())
		s.setHeap(hn, hs, fmt.Sprintf("(store %s %s %s)", s.heap(hn, hs), p.S, v.S))
		return
	case *ast.SelectorExpr:
		sel, ok := fr.info.Selections[x]
		if !ok {
			// qualified package variable
			if o, ok := fr.info.Uses[x.Sel].(*types.Var); ok {
				fr.writeVar(s, o, v)
				return
			}
			break
		}
		fr.assignField(s, x.X, sel.Index(), v, pos)
		return
	case *ast.IndexExpr:
		bt := fr.typeOf(x.X)
		if bt == nil {
			break
		}
		switch u := bt.Underlying().(type) {
		case *types.Map:
			m := fr.eval(s, x.X)
			k := fr.convertTo(s, fr.eval(s, x.Index), u.Key())
			fr.mapKeyCheck(s, u, k, pos)
			v = fr.convertTo(s, v, u.Elem())
			fr.vc.oblige(s, "nilmap", not(eq(m.S, "0")), pos, "assignment to entry in nil map")
			vn, vs, dn, ds := fr.eng.mapHeaps(u)
			hv := s.heap(vn, vs)
			hd := s.heap(dn, ds)
			s.setHeap(vn, vs, fmt.Sprintf("(store %s %s (store (select %s %s) %s %s))", hv, m.S, hv, m.S, k.S, v.S))
			s.setHeap(dn, ds, fmt.Sprintf("(store %s %s (store (select %s %s) %s true))", hd, m.S, hd, m.S, k.S))
			return
		case *types.Slice:
			base := fr.eval(s, x.X)
			idx := fr.eval(s, x.Index)
			fr.vc.oblige(s, "idx", fmt.Sprintf("(and (<= 0 %s) (< %s %s))", idx.S, idx.S, fr.lenOf(s, base)), pos, "index out of range")
			if isByte(u.Elem()) {
				nv := fmt.Sprintf("(seq.++ (seq.extract %s 0 %s) (seq.unit %s) (seq.extract %s (+ %s 1) (- (seq.len %s) (+ %s 1))))", base.S, idx.S, v.S, base.S, idx.S, base.S, idx.S)
				fr.eng.assumptions["byte slices have value semantics: a write through b[i:] updates only the variable b (no other alias of the backing array is tracked)"] = true
				fr.assign(s, x.X, &Val{T: base.T, S: fr.vc.define("bytes", "(Seq Int)", nv)}, pos)
				return
			}
			v = fr.convertTo(s, v, u.Elem())
			hn, hs := fr.eng.elemHeap(u.Elem())
			h := s.heap(hn, hs)
			s.setHeap(hn, hs, fmt.Sprintf("(store %s (sl_ref %s) (store (select %s (sl_ref %s)) %s %s))", h, base.S, h, base.S, elemAddr(base, idx.S), v.S))
			return
		case *types.Array:
			base := fr.eval(s, x.X)
			idx := fr.eval(s, x.Index)
			if idx.Const == nil {
				fr.vc.oblige(s, "idx", fmt.Sprintf("(and (<= 0 %s) (< %s %d))", idx.S, idx.S, u.Len()), pos, "index out of range")
			}
			var nv string
			if isByte(u.Elem()) {
				nv = fmt.Sprintf("(seq.++ (seq.extract %s 0 %s) (seq.unit %s) (seq.extract %s (+ %s 1) (- (seq.len %s) (+ %s 1))))", base.S, idx.S, v.S, base.S, idx.S, base.S, idx.S)
			} else {
				v = fr.convertTo(s, v, u.Elem())
				nv = fmt.Sprintf("(store %s %s %s)", base.S, idx.S, v.S)
			}
			fr.assign(s, x.X, &Val{T: base.T, S: fr.vc.define("arr", fr.eng.sortOf(base.T), nv)}, pos)
			return
		case *types.Pointer:
			// (*[N]T)[i]
			if at, ok := u.Elem().Underlying().(*types.Array); ok {
				p := fr.eval(s, x.X)
				cur := fr.deref(s, p, pos)
				idx := fr.eval(s, x.Index)
				fr.vc.oblige(s, "idx", fmt.Sprintf("(and (<= 0 %s) (< %s %d))", idx.S, idx.S, at.Len()), pos, "index out of range")
				var nv string
				if isByte(at.Elem()) {
					nv = fmt.Sprintf("(seq.++ (seq.extract %s 0 %s) (seq.unit %s) (seq.extract %s (+ %s 1) (- (seq.len %s) (+ %s 1))))", cur.S, idx.S, v.S, cur.S, idx.S, cur.S, idx.S)
				} else {
					nv = fmt.Sprintf("(store %s %s %s)", cur.S, idx.S, v.S)
				}
				hn, hs := fr.eng.ptrHeap(u.Elem())
				s.setHeap(hn, hs, fmt.Sprintf("(store %s %s %s)", s.heap(hn, hs), p.S, nv))
				return
			}
		}
	}
	fr.unsupported(pos, fmt.Sprintf("assignment target %T", lhs))
}

// assignField stores v into base.path (path may cross embedded structs / pointers).
func (fr *Frame) assignField(s *State, baseExpr ast.Expr, path []int, v *Val, pos token.Pos) {
	base := fr.eval(s, baseExpr)
	if pt, ok := base.T.Underlying().(*types.Pointer); ok {
		fr.nilCheck(s, base, pos)
		hn, hs := fr.eng.ptrHeap(pt.Elem())
		cur := &Val{T: pt.Elem(), S: fmt.Sprintf("(select %s %s)", s.heap(hn, hs), base.S)}
		nv := fr.updatePath(s, cur, path, v, pos)
		if nv == nil {
			return
		}
		s.setHeap(hn, hs, fmt.Sprintf("(store %s %s %s)", s.heap(hn, hs), base.S, nv.S))
		return
	}
	nv := fr.updatePath(s, base, path, v, pos)
	if nv == nil {
		return
	}
	fr.assign(s, baseExpr, nv, pos)
}

// updatePath returns cur with the field at path replaced by v; a pointer inside the path redirects to the heap.
func (fr *Frame) updatePath(s *State, cur *Val, path []int, v *Val, pos token.Pos) *Val {
	if _, ok := cur.T.Underlying().(*types.Struct); !ok {
		fr.unsupported(pos, "field update on "+cur.T.String())
		return nil
	}
	idx := path[0]
	si := fr.eng.structSort(cur.T)
	ft := si.Fields[idx].Type()
	if len(path) == 1 {
		v = fr.convertTo(s, v, ft)
		return fr.eng.setField(cur, idx, v.S)
	}
	sub := fr.eng.getField(cur, idx)
	if pt, ok := ft.Underlying().(*types.Pointer); ok {
		// embedded pointer: update through the heap, cur itself unchanged
		fr.nilCheck(s, sub, pos)
		hn, hs := fr.eng.ptrHeap(pt.Elem())
		inner := &Val{T: pt.Elem(), S: fmt.Sprintf("(select %s %s)", s.heap(hn, hs), sub.S)}
		nv := fr.updatePath(s, inner, path[1:], v, pos)
		if nv != nil {
			s.setHeap(hn, hs, fmt.Sprintf("(store %s %s %s)", s.heap(hn, hs), sub.S, nv.S))
		}
		return cur
	}
	nsub := fr.updatePath(s, sub, path[1:], v, pos)
	if nsub == nil {
		return nil
	}
	return fr.eng.setField(cur, idx, nsub.S)
}

// ---------------------------------------------------------------------------

func (fr *Frame) execReturn(s *State, x *ast.ReturnStmt) {
	var vals []*Val
	nres := 0
	if fr.sig != nil {
		nres = fr.sig.Results().Len()
	}
	if len(x.Results) == 0 {
		fr.doReturn(s, nil, x.Pos())
		return
	}
	if len(x.Results) == 1 && nres > 1 {
		vals = fr.evalTuple(s, x.Results[0], nres)
	} else {
		for _, r := range x.Results {
			vals = append(vals, fr.eval(s, r))
		}
	}
	fr.doReturn(s, vals, x.Pos())
}

// doReturn records a return with the given values (nil = named results / no results).
func (fr *Frame) doReturn(s *State, vals []*Val, pos token.Pos) {
	if s.g == "false" {
		return
	}
	nres := 0
	if fr.sig != nil {
		nres = fr.sig.Results().Len()
	}
	if vals == nil && nres > 0 {
		for _, o := range fr.results {
			vals = append(vals, fr.readVar(s, o, pos))
		}
	} else if vals != nil {
		for i := range vals {
			if i < nres {
				vals[i] = fr.convertTo(s, vals[i], fr.sig.Results().At(i).Type())
			}
		}
		// named results are assigned (visible to deferred closures)
		for i, o := range fr.results {
			if i < len(vals) {
				fr.writeVar(s, o, vals[i])
			}
		}
	}
	for len(vals) < nres {
		t := fr.sig.Results().At(len(vals)).Type()
		vals = append(vals, &Val{T: t, S: fr.eng.zeroOf(t)})
	}
	// run deferred calls (LIFO)
	if len(s.defers) > 0 {
		ds := s.defers
		s.defers = nil
		for i := len(ds) - 1; i >= 0; i-- {
			ds[i].run(s)
		}
		if len(fr.results) > 0 {
			vals = nil
			for _, o := range fr.results {
				vals = append(vals, fr.readVar(s, o, pos))
			}
		}
	}
	for i := range vals {
		if vals[i].Fn == nil && len(vals[i].S) > 48 {
			vals[i] = &Val{T: vals[i].T, S: fr.vc.define("ret", fr.eng.sortOf(vals[i].T), vals[i].S)}
		}
	}
	fr.returns = append(fr.returns, retRec{s: s, vals: vals})
}

func (fr *Frame) execDefer(s *State, x *ast.DeferStmt) {
	call := x.Call
	// unlock / log defers are dropped under the sequential assumption
	if sel, ok := ast.Unparen(call.Fun).(*ast.SelectorExpr); ok {
		if sl, ok := fr.info.Selections[sel]; ok {
			if f, ok := sl.Obj().(*types.Func); ok && f.Pkg() != nil && (f.Pkg().Path() == "sync" || isLogPkg(f.Pkg())) {
				fr.eng.dropped["defer-unlock/log"]++
				return
			}
		}
	}
	if lit, ok := ast.Unparen(call.Fun).(*ast.FuncLit); ok {
		hasRecover := false
		ast.Inspect(lit, func(n ast.Node) bool {
			if c, ok := n.(*ast.CallExpr); ok {
				if id, ok := c.Fun.(*ast.Ident); ok && id.Name == "recover" {
					hasRecover = true
				}
			}
			return true
		})
		if hasRecover {
			fr.unsupported(x.Pos(), "defer with recover()")
			return
		}
	}
	ff := fr
	s.defers = append(s.defers, deferred{run: func(st *State) {
		ff.evalCall(st, call)
	}})
	fr.eng.assumptions["arguments of deferred calls are evaluated when the function returns (Go evaluates them at the defer statement)"] = true
}

func (fr *Frame) execIf(s *State, x *ast.IfStmt) *State {
	if x.Init != nil {
		s = fr.execStmt(s, x.Init, "")
		if s == nil {
			return nil
		}
	}
	c := fr.eval(s, x.Cond)
	if s.g == "false" {
		return nil
	}
	st := s.fork(c.S)
	se := s.fork(not(c.S))
	var rt, re *State
	if !(fr.vc.prune && fr.vc.infeasible(st)) {
		rt = fr.execBlock(st, x.Body.List)
	}
	if fr.vc.prune && fr.vc.infeasible(se) {
		fr.eng.dropped["code after a guard that the precondition makes unreachable (prune)"]++
		return rt
	}
	if x.Else != nil {
		re = fr.execStmt(se, x.Else, "")
	} else {
		re = se
	}
	return mergeStates(rt, re)
}

func (fr *Frame) pushLoop(label string, isSwitch bool) *loopCtx {
	lc := &loopCtx{label: label, isSwitch: isSwitch}
	fr.loops = append(fr.loops, lc)
	return lc
}

func (fr *Frame) popLoop() { fr.loops = fr.loops[:len(fr.loops)-1] }

func (fr *Frame) execBranch(s *State, x *ast.BranchStmt) *State {
	switch x.Tok {
	case token.BREAK:
		for i := len(fr.loops) - 1; i >= 0; i-- {
			lc := fr.loops[i]
			if x.Label == nil || lc.label == x.Label.Name {
				if lc.spec != nil {
					// break hints: stepping stones proved in the state of this break and available after the loop
					for i, h := range lc.spec.BreakHints {
						t := fr.evalClause(s, h, x.Pos(), lc.extra)
						fr.vc.oblige(s, fmt.Sprintf("break-hint.L%d.", lc.ord), t, x.Pos(), fmt.Sprintf("loop %d break hint %d: %s", lc.ord, i+1, h.Text))
						s.assume(t)
					}
				}
				lc.breaks = append(lc.breaks, s)
				return nil
			}
		}
	case token.CONTINUE:
		for i := len(fr.loops) - 1; i >= 0; i-- {
			lc := fr.loops[i]
			if lc.isSwitch {
				continue
			}
			if x.Label == nil || lc.label == x.Label.Name {
				fr.stepHints(s, lc, x.Pos())
				lc.continues = append(lc.continues, s)
				return nil
			}
		}
	case token.FALLTHROUGH:
		fr.unsupported(x.Pos(), "fallthrough")
		return nil
	}
	fr.unsupported(x.Pos(), "branch "+x.Tok.String())
	return nil
}

func (fr *Frame) execSwitch(s *State, x *ast.SwitchStmt, label string) *State {
	if x.Init != nil {
		s = fr.execStmt(s, x.Init, "")
		if s == nil {
			return nil
		}
	}
	var tag *Val
	if x.Tag != nil {
		tag = fr.eval(s, x.Tag)
	}
	lc := fr.pushLoop(label, true)
	defer fr.popLoop()
	var outs []*State
	cur := s // state in which no previous case matched
	var ft *State // state falling through from the previous case
	var deflt *ast.CaseClause
	for _, cs := range x.Body.List {
		cc := cs.(*ast.CaseClause)
		if cc.List == nil {
			deflt = cc
			continue
		}
		var conds []string
		for _, e := range cc.List {
			v := fr.eval(cur, e)
			if tag != nil {
				conds = append(conds, fr.eqVals(cur, tag, v))
			} else {
				conds = append(conds, v.S)
			}
		}
		c := fr.vc.small("case", "Bool", or(conds...))
		sc := cur.fork(c)
		cur = cur.fork(not(c))
		if ft != nil {
			sc = mergeStates(sc, ft)
			ft = nil
		}
		body, falls := splitFallthrough(cc.Body)
		r := fr.execBlock(sc, body)
		if falls {
			ft = r
		} else if r != nil {
			outs = append(outs, r)
		}
	}
	if deflt != nil {
		if ft != nil {
			// fallthrough into default is only right when default is textually last; otherwise unsupported
			if x.Body.List[len(x.Body.List)-1] != ast.Stmt(deflt) {
				fr.unsupported(x.Pos(), "fallthrough with non-final default")
			}
			cur = mergeStates(cur, ft)
			ft = nil
		}
		body, falls := splitFallthrough(deflt.Body)
		if falls {
			fr.unsupported(x.Pos(), "fallthrough out of default")
		}
		if r := fr.execBlock(cur, body); r != nil {
			outs = append(outs, r)
		}
	} else {
		outs = append(outs, cur)
		if ft != nil {
			outs = append(outs, ft)
		}
	}
	outs = append(outs, lc.breaks...)
	return mergeAll(outs)
}

func splitFallthrough(body []ast.Stmt) ([]ast.Stmt, bool) {
	if n := len(body); n > 0 {
		if b, ok := body[n-1].(*ast.BranchStmt); ok && b.Tok == token.FALLTHROUGH {
			return body[:n-1], true
		}
	}
	return body, false
}

func (fr *Frame) execTypeSwitch(s *State, x *ast.TypeSwitchStmt, label string) *State {
	if x.Init != nil {
		s = fr.execStmt(s, x.Init, "")
		if s == nil {
			return nil
		}
	}
	var subj ast.Expr
	var bind *ast.Ident
	switch a := x.Assign.(type) {
	case *ast.ExprStmt:
		subj = a.X.(*ast.TypeAssertExpr).X
	case *ast.AssignStmt:
		subj = a.Rhs[0].(*ast.TypeAssertExpr).X
		bind = a.Lhs[0].(*ast.Ident)
	}
	_ = bind
	v := fr.eval(s, subj)
	lc := fr.pushLoop(label, true)
	defer fr.popLoop()
	var outs []*State
	cur := s
	var deflt *ast.CaseClause
	for _, cs := range x.Body.List {
		cc := cs.(*ast.CaseClause)
		if cc.List == nil {
			deflt = cc
			continue
		}
		var conds []string
		var single *Val
		for _, e := range cc.List {
			if tv, ok := fr.info.Types[e]; ok && tv.IsNil() {
				conds = append(conds, eq(v.S, "0"))
				continue
			}
			t := fr.typeOf(e)
			val, ok := fr.typeAssert(cur, v, t)
			conds = append(conds, ok)
			single = val
		}
		c := fr.vc.small("tcase", "Bool", or(conds...))
		sc := cur.fork(c)
		cur = cur.fork(not(c))
		if o, ok := fr.info.Implicits[cc].(*types.Var); ok && o != nil {
			if len(cc.List) == 1 && single != nil {
				fr.declVar(sc, o, fr.readFact(sc, single))
			} else {
				fr.declVar(sc, o, v)
			}
		}
		if r := fr.execBlock(sc, cc.Body); r != nil {
			outs = append(outs, r)
		}
	}
	if deflt != nil {
		if o, ok := fr.info.Implicits[deflt].(*types.Var); ok && o != nil {
			fr.declVar(cur, o, v)
		}
		if r := fr.execBlock(cur, deflt.Body); r != nil {
			outs = append(outs, r)
		}
	} else {
		outs = append(outs, cur)
	}
	outs = append(outs, lc.breaks...)
	return mergeAll(outs)
}

// stepHints proves the loop's step hints in the state of one path through the body (a `continue`, or the normal
// end of the body) and makes them available to the invariant-preservation obligations of the merged state.
func (fr *Frame) stepHints(s *State, lc *loopCtx, pos token.Pos) {
	if s == nil || lc == nil || lc.spec == nil {
		return
	}
	for i, h := range lc.spec.StepHints {
		t := fr.evalClause(s, h, pos, lc.extra)
		fr.vc.oblige(s, fmt.Sprintf("step-hint.L%d.", lc.ord), t, pos, fmt.Sprintf("loop %d step hint %d: %s", lc.ord, i+1, h.Text))
		s.assume(t)
	}
}
