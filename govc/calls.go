package main

import (
	"fmt"
	"go/ast"
	"go/token"
	"go/types"
	"strings"
)

const maxInlineDepth = 6

func (fr *Frame) evalCall(s *State, call *ast.CallExpr) []*Val {
	n := len(fr.bigTemps)
	res := fr.evalCall1(s, call)
	fr.flushBigTemps(s, n)
	return res
}

func (fr *Frame) evalCall1(s *State, call *ast.CallExpr) []*Val {
	// conversion?
	if tv, ok := fr.info.Types[call.Fun]; ok && tv.IsType() {
		if len(call.Args) != 1 {
			fr.unsupported(call.Pos(), "conversion arity")
			return []*Val{fr.freshVal(s, tv.Type, "unsup")}
		}
		return []*Val{fr.convert(s, fr.eval(s, call.Args[0]), tv.Type, call.Pos())}
	}
	fun := ast.Unparen(call.Fun)
	// builtins
	if id, ok := fun.(*ast.Ident); ok {
		if b, ok := fr.info.Uses[id].(*types.Builtin); ok {
			return fr.evalBuiltin(s, b.Name(), call)
		}
	}
	if isLogChain(fr, call) {
		return fr.evalLogChain(s, call)
	}
	var callee *types.Func
	var recv *Val
	switch f := fun.(type) {
	case *ast.Ident:
		switch o := fr.info.Uses[f].(type) {
		case *types.Func:
			callee = o
		case *types.Var:
			v := fr.readVar(s, o, f.Pos())
			if v.Fn != nil {
				return fr.callClosure(s, v.Fn, call)
			}
			if fr.pureFuncVar(o) {
				for _, a := range call.Args {
					fr.eval(s, a)
				}
				return fr.freshResults(s, fr.typeOf(call))
			}
		}
	case *ast.FuncLit:
		return fr.callClosure(s, &Closure{Lit: f, Frame: fr}, call)
	case *ast.SelectorExpr:
		if r, ok := fr.cgoCall(s, f, call); ok {
			return r
		}
		if sel, ok := fr.info.Selections[f]; ok {
			if sel.Kind() == types.MethodVal {
				callee = sel.Obj().(*types.Func)
				recv = fr.evalRecv(s, f, sel)
			} else if sel.Kind() == types.FieldVal {
				if r, ok := fr.fieldFuncCall(s, f, sel, call); ok {
					return r
				}
				fv := fr.eval(s, f)
				if fv.Fn != nil {
					return fr.callClosure(s, fv.Fn, call)
				}
			}
		} else if o, ok := fr.info.Uses[f.Sel].(*types.Func); ok {
			callee = o
		}
	case *ast.IndexExpr:
		// generic function instantiation f[T](...)
		if id, ok := f.X.(*ast.Ident); ok {
			if o, ok := fr.info.Uses[id].(*types.Func); ok {
				callee = o
			}
		}
	}
	// evaluate arguments
	var args []*Val
	if len(call.Args) == 1 {
		// f(g()) with multi-value g
		vs := fr.evalMulti(s, call.Args[0])
		if len(vs) == 1 && vs[0].Multi != nil {
			vs = vs[0].Multi
		}
		args = vs
	} else {
		for _, a := range call.Args {
			args = append(args, fr.eval(s, a))
		}
	}
	if callee == nil {
		fr.imprecise(call.Pos(), "dynamic call")
		return fr.havocCall(s, fr.typeOf(call), "dynamic call at "+fr.eng.posStr(call.Pos()))
	}
	callee = callee.Origin()
	if fn := fullName(callee); strings.HasPrefix(fn, "encoding/binary.") && strings.Contains(fn, ".PutUint") && len(args) == 2 {
		width := map[string]int{"16": 2, "32": 4, "64": 8}[fn[len(fn)-2:]]
		le := strings.Contains(fn, "littleEndian")
		dec := fmt.Sprintf("dec_%s%d", map[bool]string{true: "le", false: "be"}[le], width)
		enc := fmt.Sprintf("enc_%s%d", map[bool]string{true: "le", false: "be"}[le], width)
		fr.eng.codecSyms(dec, enc, width)
		fr.eng.trustedUsed["model:"+fn] = true
		fr.vc.oblige(s, "idx", fmt.Sprintf("(>= (seq.len %s) %d)", args[0].S, width), call.Pos(), fn+": buffer too short")
		src := &Val{T: args[0].T, S: fmt.Sprintf("(%s %s)", enc, args[1].S)}
		fr.storeBytes(s, call.Args[0], src, fmt.Sprintf("%d", width), call.Pos())
		return nil
	}
	return fr.callFunc(s, callee, recv, args, call)
}

// evalRecv evaluates the receiver operand of a method call adjusted to the method's receiver type.
func (fr *Frame) evalRecv(s *State, f *ast.SelectorExpr, sel *types.Selection) *Val {
	m := sel.Obj().(*types.Func)
	sig := m.Type().(*types.Signature)
	path := sel.Index()
	// walk implicit embedded fields (all but the last index, which is the method)
	var base *Val
	xt := fr.typeOf(f.X)
	_, recvIsPtr := sig.Recv().Type().Underlying().(*types.Pointer)
	_, recvIsIface := sig.Recv().Type().Underlying().(*types.Interface)
	_, xIsPtr := xt.Underlying().(*types.Pointer)
	if len(path) == 1 && recvIsPtr && !xIsPtr && !recvIsIface {
		// implicit &x
		return fr.addrOf(s, f.X)
	}
	base = fr.eval(s, f.X)
	if len(path) > 1 {
		// embedded: select the embedded field value; if method needs pointer to embedded struct we lose identity
		cur := base
		for _, idx := range path[:len(path)-1] {
			if _, ok := cur.T.Underlying().(*types.Pointer); ok {
				cur = fr.deref(s, cur, f.Pos())
			}
			cur = fr.eng.getField(cur, idx)
		}
		base = fr.readFact(s, cur)
		_, xIsPtr = base.T.Underlying().(*types.Pointer)
		if recvIsPtr && !xIsPtr {
			fr.imprecise(f.Pos(), "pointer to embedded field as receiver")
			v := fr.freshVal(s, sig.Recv().Type(), "embrecv")
			s.assume(not(eq(v.S, "0")))
			return v
		}
	}
	if !recvIsPtr && xIsPtr && !recvIsIface {
		return fr.deref(s, base, f.Pos())
	}
	return base
}

func isLogPkg(p *types.Package) bool {
	if p == nil {
		return false
	}
	path := p.Path()
	return strings.HasSuffix(path, "github.com/rs/zerolog") || strings.HasSuffix(path, "aergo-lib/log")
}

func isLogChain(fr *Frame, call *ast.CallExpr) bool {
	sel, ok := ast.Unparen(call.Fun).(*ast.SelectorExpr)
	if !ok {
		return false
	}
	if s, ok := fr.info.Selections[sel]; ok {
		if f, ok := s.Obj().(*types.Func); ok && isLogPkg(f.Pkg()) {
			return true
		}
	}
	return false
}

// evalLogChain treats logger.X()....Msg() as a no-op; arguments are still evaluated (for their panic
// obligations); .Panic()/.Fatal() events are panic sites.
func (fr *Frame) evalLogChain(s *State, call *ast.CallExpr) []*Val {
	fr.eng.dropped["log"]++
	panics := false
	var walk func(e ast.Expr)
	walk = func(e ast.Expr) {
		switch x := ast.Unparen(e).(type) {
		case *ast.CallExpr:
			if sel, ok := ast.Unparen(x.Fun).(*ast.SelectorExpr); ok {
				if sel.Sel.Name == "Panic" || sel.Sel.Name == "Fatal" {
					if sl, ok := fr.info.Selections[sel]; ok {
						if f, ok := sl.Obj().(*types.Func); ok && isLogPkg(f.Pkg()) {
							panics = true
						}
					}
				}
				walk(sel.X)
			}
			for _, a := range x.Args {
				if _, isLit := a.(*ast.FuncLit); isLit {
					continue
				}
				fr.eval(s, a)
			}
		}
	}
	walk(call)
	if panics {
		// only the terminal Msg/Msgf/Send triggers; approximated as: the statement panics
		fr.vc.oblige(s, "panic", "false", call.Pos(), "logger Panic()/Fatal() reached")
	}
	t := fr.typeOf(call)
	if t == nil {
		return nil
	}
	if tup, ok := t.(*types.Tuple); ok && tup.Len() == 0 {
		return nil
	}
	v := fr.freshVal(s, t, "log")
	if _, ok := t.Underlying().(*types.Pointer); ok {
		s.assume(not(eq(v.S, "0")))
	}
	return []*Val{v}
}

func (fr *Frame) havocCall(s *State, t types.Type, what string) []*Val {
	fr.eng.havocked[what] = true
	if fr.vc.prune {
		// a function verified with `prune` claims a frame under a precondition that makes most of its body dead: a
		// call without a frame contract on a live path settles the matter, and the path is not followed further
		fr.vc.oblige(s, "frame-havoc", "false", token.NoPos, "a callee without frame contract ("+what+") is reached on a path the precondition allows; the declared frame cannot be established")
		s.g = "false"
		return fr.freshResults(s, t)
	}
	fr.havocEverything(s)
	return fr.freshResults(s, t)
}

func (fr *Frame) freshResults(s *State, t types.Type) []*Val {
	if t == nil {
		return nil
	}
	if tup, ok := t.(*types.Tuple); ok {
		var out []*Val
		for i := 0; i < tup.Len(); i++ {
			out = append(out, fr.freshVal(s, tup.At(i).Type(), "r"))
		}
		return out
	}
	return []*Val{fr.freshVal(s, t, "r")}
}

func (fr *Frame) callFunc(s *State, callee *types.Func, recv *Val, args []*Val, call *ast.CallExpr) []*Val {
	sig := callee.Type().(*types.Signature)
	args = fr.packVariadic(s, sig, args, call)
	// implicit conversion of the arguments to the parameter types (nil, boxing into interfaces)
	for i := 0; i < sig.Params().Len() && i < len(args); i++ {
		if args[i] != nil && args[i].Fn == nil {
			args[i] = fr.convertTo(s, args[i], sig.Params().At(i).Type())
		}
	}
	if r, ok := fr.reflectModel(s, callee, recv, args, call); ok {
		return r
	}
	if r, ok := fr.streamModel(s, callee, recv, args); ok {
		return r
	}
	if r, ok := fr.sortModel(s, callee, args); ok {
		return r
	}
	if c := fr.eng.contractFor(callee); c != nil {
		return fr.applyContract(s, c, callee, recv, args, call.Pos())
	}
	// interface method without contract
	if sig.Recv() != nil {
		if _, ok := sig.Recv().Type().Underlying().(*types.Interface); ok {
			if r, ok := fr.knownPure(s, callee, recv, args); ok {
				return r
			}
			return fr.havocCall(s, sig.Results(), "interface method "+funcKey(callee)+" (no contract)")
		}
	}
	if r, ok := fr.knownPure(s, callee, recv, args); ok {
		return r
	}
	fi := fr.eng.funcs[callee]
	if fi != nil && fr.depth < maxInlineDepth && !fr.onStack(fi.Key) && fi.Pkg.TypesInfo != nil && !fr.vc.prune {
		fr.eng.inlined[fi.Key] = true
		return fr.inline(s, fi, recv, args, call.Pos())
	}
	return fr.havocCall(s, sig.Results(), "call to "+funcKey(callee)+" (no contract, not inlinable)")
}

func (fr *Frame) onStack(key string) bool {
	for f := fr; f != nil; f = f.parent {
		if f.fi != nil && f.fi.Key == key {
			return true
		}
	}
	return false
}

func (fr *Frame) packVariadic(s *State, sig *types.Signature, args []*Val, call *ast.CallExpr) []*Val {
	if !sig.Variadic() {
		return args
	}
	if call != nil && call.Ellipsis.IsValid() {
		return args
	}
	n := sig.Params().Len()
	if len(args) < n-1 {
		return args
	}
	vt := sig.Params().At(n - 1).Type().(*types.Slice)
	extra := args[n-1:]
	var packed *Val
	if isByte(vt.Elem()) {
		parts := []string{}
		for _, a := range extra {
			parts = append(parts, "(seq.unit "+a.S+")")
		}
		switch len(parts) {
		case 0:
			packed = &Val{T: vt, S: "(as seq.empty (Seq Int))"}
		case 1:
			packed = &Val{T: vt, S: parts[0]}
		default:
			packed = &Val{T: vt, S: "(seq.++ " + strings.Join(parts, " ") + ")"}
		}
	} else if len(extra) == 0 {
		packed = &Val{T: vt, S: "(mk_Slice 0 0 0 0)"}
	} else {
		ref := s.alloc()
		hn, hs := fr.eng.elemHeap(vt.Elem())
		arr := fmt.Sprintf("(select %s %s)", s.heap(hn, hs), ref)
		for i, a := range extra {
			v := fr.convertTo(s, a, vt.Elem())
			arr = fmt.Sprintf("(store %s %d %s)", arr, i, v.S)
		}
		s.setHeap(hn, hs, fmt.Sprintf("(store %s %s %s)", s.heap(hn, hs), ref, arr))
		packed = &Val{T: vt, S: fmt.Sprintf("(mk_Slice %s 0 %d %d)", ref, len(extra), len(extra))}
	}
	out := append([]*Val{}, args[:n-1]...)
	return append(out, packed)
}

// inline executes the callee's body in the caller's state.
func (fr *Frame) inline(s *State, fi *FuncInfo, recv *Val, args []*Val, pos token.Pos) []*Val {
	sig := fi.Obj.Type().(*types.Signature)
	nf := &Frame{eng: fr.eng, vc: fr.vc, fi: fi, info: fi.Pkg.TypesInfo, pkg: fi.Pkg.Types, sig: sig, depth: fr.depth + 1, parent: fr,
		entry: fr.entry}
	nf.boxedSet = findBoxed(fi.Decl.Body, nf.info)
	if sig.Recv() != nil && recv != nil {
		if fi.Decl.Recv != nil && len(fi.Decl.Recv.List) > 0 && len(fi.Decl.Recv.List[0].Names) > 0 {
			if o, ok := nf.info.Defs[fi.Decl.Recv.List[0].Names[0]].(*types.Var); ok {
				nf.bindParam(s, o, recv)
			}
		}
	}
	nf.bindParams(s, fi.Decl.Type, args)
	nf.initResults(s, fi.Decl.Type)
	saved := s.defers
	s.defers = nil
	end := nf.execBlock(s, fi.Decl.Body.List)
	if end != nil {
		nf.doReturn(end, nil, fi.Decl.Body.Rbrace)
	}
	return fr.joinReturns(s, nf, sig.Results(), saved)
}

// joinReturns merges the callee's return states into s and yields the merged results.
func (fr *Frame) joinReturns(s *State, nf *Frame, results *types.Tuple, savedDefers []deferred) []*Val {
	if len(nf.returns) == 0 {
		// callee never returns (always panics): path is dead
		s.g = "false"
		var out []*Val
		for i := 0; i < results.Len(); i++ {
			out = append(out, &Val{T: results.At(i).Type(), S: fr.eng.zeroOf(results.At(i).Type())})
		}
		return out
	}
	var states []*State
	var gs []string
	for _, r := range nf.returns {
		states = append(states, r.s)
		gs = append(gs, r.s.g)
	}
	m := mergeAll(states)
	var out []*Val
	for i := 0; i < results.Len(); i++ {
		var vs []*Val
		for _, r := range nf.returns {
			vs = append(vs, r.vals[i])
		}
		out = append(out, fr.vc.mergeVals(gs, vs))
	}
	*s = *m
	s.defers = savedDefers
	return out
}

func (fr *Frame) bindParam(s *State, o *types.Var, v *Val) {
	v = fr.convertTo(s, v, o.Type())
	if fr.boxedSet[o] {
		ref := s.alloc()
		s.boxed[o] = ref
		hn, hs := fr.eng.ptrHeap(o.Type())
		s.setHeap(hn, hs, fmt.Sprintf("(store %s %s %s)", s.heap(hn, hs), ref, v.S))
		return
	}
	if v.Fn == nil && len(v.S) > 48 {
		v = &Val{T: v.T, S: fr.vc.define(o.Name(), fr.eng.sortOf(v.T), v.S), Dyn: v.Dyn}
	}
	s.vars[o] = v
}

func (fr *Frame) bindParams(s *State, ft *ast.FuncType, args []*Val) {
	i := 0
	if ft.Params == nil {
		return
	}
	for _, f := range ft.Params.List {
		if len(f.Names) == 0 {
			i++
			continue
		}
		for _, n := range f.Names {
			if i < len(args) {
				if o, ok := fr.info.Defs[n].(*types.Var); ok && o != nil {
					fr.bindParam(s, o, args[i])
				}
			}
			i++
		}
	}
}

func (fr *Frame) initResults(s *State, ft *ast.FuncType) {
	fr.results = nil
	if ft.Results == nil {
		return
	}
	for _, f := range ft.Results.List {
		for _, n := range f.Names {
			if o, ok := fr.info.Defs[n].(*types.Var); ok && o != nil {
				fr.results = append(fr.results, o)
				fr.bindParam(s, o, &Val{T: o.Type(), S: fr.eng.zeroOf(o.Type())})
			}
		}
	}
}

func (fr *Frame) callClosure(s *State, c *Closure, call *ast.CallExpr) []*Val {
	var args []*Val
	for _, a := range call.Args {
		args = append(args, fr.eval(s, a))
	}
	if fr.depth >= maxInlineDepth {
		return fr.havocCall(s, fr.typeOf(call), "closure call (depth)")
	}
	return fr.callClosureVals(s, c, args)
}

func (fr *Frame) callClosureVals(s *State, c *Closure, args []*Val) []*Val {
	lit := c.Lit.(*ast.FuncLit)
	sig, _ := c.Frame.typeOf(lit).(*types.Signature)
	nf := &Frame{eng: fr.eng, vc: fr.vc, fi: c.Frame.fi, info: c.Frame.info, pkg: c.Frame.pkg, sig: sig, depth: fr.depth + 1, parent: fr, entry: fr.entry, lit: lit}
	nf.boxedSet = c.Frame.boxedSet
	nf.bindParams(s, lit.Type, args)
	nf.initResults(s, lit.Type)
	saved := s.defers
	s.defers = nil
	end := nf.execBlock(s, lit.Body.List)
	if end != nil {
		nf.doReturn(end, nil, lit.Body.Rbrace)
	}
	var res *types.Tuple
	if sig != nil {
		res = sig.Results()
	} else {
		res = types.NewTuple()
	}
	return fr.joinReturns(s, nf, res, saved)
}

// ---------------------------------------------------------------------------
// conversions

func (fr *Frame) convert(s *State, v *Val, to types.Type, pos token.Pos) *Val {
	from := v.T
	if from == nil {
		return &Val{T: to, S: v.S}
	}
	if _, ok := to.Underlying().(*types.Interface); ok {
		return fr.convertTo(s, v, to)
	}
	if isIntType(to) && isIntType(from) {
		if v.Const != nil {
			return &Val{T: to, S: v.S, Const: v.Const}
		}
		lo, hi, _ := intRange(to)
		flo, fhi, ok := intRange(from)
		if ok && rangeWithin(from, to) {
			_ = flo
			_ = fhi
			return &Val{T: to, S: v.S}
		}
		fb, _ := intBits(from)
		tb, _ := intBits(to)
		if fr.vc.wrapping || fb == tb {
			// same width, different signedness: a reinterpretation of the same bits (two's complement), no loss
			bits, signed := intBits(to)
			m := pow2(bits)
			if signed {
				h := pow2(bits - 1)
				return &Val{T: to, S: fr.vc.define("cv", "Int", fmt.Sprintf("(- (mod (+ %s %s) %s) %s)", v.S, h, m, h))}
			}
			return &Val{T: to, S: fr.vc.define("cv", "Int", fmt.Sprintf("(mod %s %s)", v.S, m))}
		}
		fr.vc.oblige(s, "conv", fmt.Sprintf("(and (<= %s %s) (<= %s %s))", lo, v.S, v.S, hi), pos,
			fmt.Sprintf("integer conversion %s -> %s changes the value", from, to))
		return &Val{T: to, S: v.S}
	}
	if isByteSeq(to) && isByteSeq(from) {
		return &Val{T: to, S: v.S}
	}
	if isByteSeq(to) && isIntType(from) {
		// string(rune)
		fr.imprecise(pos, "string(rune)")
		return fr.freshVal(s, to, "runestr")
	}
	if isIntType(to) {
		// float -> int
		fr.imprecise(pos, "float to int conversion")
		return fr.freshVal(s, to, "f2i")
	}
	if b, ok := to.Underlying().(*types.Basic); ok && b.Info()&types.IsFloat != 0 && isIntType(from) {
		return &Val{T: to, S: "(to_real " + v.S + ")"}
	}
	if fr.eng.sortOf(to) == fr.eng.sortOf(from) {
		return &Val{T: to, S: v.S, Fn: v.Fn}
	}
	fr.imprecise(pos, "conversion "+from.String()+" -> "+to.String())
	return fr.freshVal(s, to, "conv")
}

func rangeWithin(from, to types.Type) bool {
	fb, fs := intBits(from)
	tb, ts := intBits(to)
	if fs == ts {
		return fb <= tb
	}
	if !fs && ts {
		return fb < tb
	}
	return false
}

// ---------------------------------------------------------------------------
// builtins

func (fr *Frame) evalBuiltin(s *State, name string, call *ast.CallExpr) []*Val {
	t := fr.typeOf(call)
	switch name {
	case "len":
		v := fr.eval(s, call.Args[0])
		return []*Val{{T: types.Typ[types.Int], S: fr.lenOf(s, v)}}
	case "cap":
		v := fr.eval(s, call.Args[0])
		switch u := v.T.Underlying().(type) {
		case *types.Slice:
			if isByte(u.Elem()) {
				c := fr.freshVal(s, types.Typ[types.Int], "cap")
				s.assume(fmt.Sprintf("(>= %s (seq.len %s))", c.S, v.S))
				return []*Val{c}
			}
			return []*Val{{T: types.Typ[types.Int], S: "(sl_cap " + v.S + ")"}}
		case *types.Array:
			return []*Val{{T: types.Typ[types.Int], S: fmt.Sprintf("%d", u.Len())}}
		}
		return []*Val{fr.freshVal(s, types.Typ[types.Int], "cap")}
	case "panic":
		for _, a := range call.Args {
			fr.eval(s, a)
		}
		fr.vc.oblige(s, "panic", "false", call.Pos(), "explicit panic reached")
		s.g = fr.vc.define("g", "Bool", "false")
		return nil
	case "new":
		et := t.Underlying().(*types.Pointer).Elem()
		ref := s.alloc()
		fr.initObject(s, et, ref)
		hn, hs := fr.eng.ptrHeap(et)
		s.setHeap(hn, hs, fmt.Sprintf("(store %s %s %s)", s.heap(hn, hs), ref, fr.eng.zeroOf(et)))
		return []*Val{{T: t, S: ref}}
	case "make":
		return []*Val{fr.evalMake(s, call, t)}
	case "append":
		return []*Val{fr.evalAppend(s, call, t)}
	case "copy":
		return []*Val{fr.evalCopy(s, call)}
	case "delete":
		m := fr.eval(s, call.Args[0])
		mt := m.T.Underlying().(*types.Map)
		k := fr.convertTo(s, fr.eval(s, call.Args[1]), mt.Key())
		_, _, dn, ds := fr.eng.mapHeaps(mt)
		h := s.heap(dn, ds)
		// delete on nil map is a no-op
		s.setHeap(dn, ds, ite(eq(m.S, "0"), h, fmt.Sprintf("(store %s %s (store (select %s %s) %s false))", h, m.S, h, m.S, k.S)))
		return nil
	case "min", "max":
		op := "<="
		if name == "max" {
			op = ">="
		}
		cur := fr.eval(s, call.Args[0])
		for _, a := range call.Args[1:] {
			n := fr.eval(s, a)
			cur = &Val{T: t, S: fmt.Sprintf("(ite (%s %s %s) %s %s)", op, cur.S, n.S, cur.S, n.S)}
		}
		return []*Val{cur}
	case "print", "println":
		for _, a := range call.Args {
			fr.eval(s, a)
		}
		return nil
	case "recover":
		fr.unsupported(call.Pos(), "recover()")
		return []*Val{fr.freshVal(s, t, "rec")}
	case "close":
		fr.eval(s, call.Args[0])
		return nil
	case "clear":
		fr.eval(s, call.Args[0])
		fr.havocEverything(s)
		return nil
	}
	fr.unsupported(call.Pos(), "builtin "+name)
	return fr.freshResults(s, t)
}

func (fr *Frame) evalMake(s *State, call *ast.CallExpr, t types.Type) *Val {
	switch u := t.Underlying().(type) {
	case *types.Slice:
		ln := fr.eval(s, call.Args[1])
		fr.vc.oblige(s, "make", fmt.Sprintf("(>= %s 0)", ln.S), call.Pos(), "make with negative length")
		top := fr
		for top.parent != nil {
			top = top.parent
		}
		if top.contract != nil && top.contract.AllocBound != nil {
			bound := top.evalClause(s, top.contract.AllocBound, call.Pos(), nil)
			sz := ln.S
			if len(call.Args) > 2 {
				sz = fr.eval(s, call.Args[2]).S
			}
			fr.vc.oblige(s, "alloc", fmt.Sprintf("(<= %s %s)", sz, bound), call.Pos(), "allocation size exceeds the bound "+top.contract.AllocBound.Text)
		}
		if isByte(u.Elem()) {
			if len(call.Args) > 2 {
				c := fr.eval(s, call.Args[2])
				fr.vc.oblige(s, "make", fmt.Sprintf("(>= %s %s)", c.S, ln.S), call.Pos(), "make: len > cap")
			}
			v := fr.freshVal(s, t, "mk")
			s.assume(fmt.Sprintf("(= (seq.len %s) %s)", v.S, ln.S))
			if ln.Const != nil || true {
				s.assume(fmt.Sprintf("(forall ((i Int)) (! (=> (and (<= 0 i) (< i %s)) (= (seq.nth %s i) 0)) :pattern ((seq.nth %s i))))", ln.S, v.S, v.S))
			}
			return v
		}
		capS := ln.S
		if len(call.Args) > 2 {
			c := fr.eval(s, call.Args[2])
			fr.vc.oblige(s, "make", fmt.Sprintf("(>= %s %s)", c.S, ln.S), call.Pos(), "make: len > cap")
			capS = c.S
		}
		ref := s.alloc()
		hn, hs := fr.eng.elemHeap(u.Elem())
		s.setHeap(hn, hs, fmt.Sprintf("(store %s %s ((as const (Array Int %s)) %s))", s.heap(hn, hs), ref, fr.eng.sortOf(u.Elem()), fr.eng.zeroOf(u.Elem())))
		return &Val{T: t, S: fr.vc.define("mk", "Slice", fmt.Sprintf("(mk_Slice %s 0 %s %s)", ref, ln.S, capS))}
	case *types.Map:
		for _, a := range call.Args[1:] {
			fr.eval(s, a)
		}
		ref := s.alloc()
		_, _, dn, ds := fr.eng.mapHeaps(u)
		ks := fr.eng.sortOf(u.Key())
		s.setHeap(dn, ds, fmt.Sprintf("(store %s %s ((as const (Array %s Bool)) false))", s.heap(dn, ds), ref, ks))
		return &Val{T: t, S: ref}
	case *types.Chan:
		for _, a := range call.Args[1:] {
			fr.eval(s, a)
		}
		return &Val{T: t, S: s.alloc()}
	}
	fr.unsupported(call.Pos(), "make of "+t.String())
	return fr.freshVal(s, t, "unsup")
}

func (fr *Frame) evalAppend(s *State, call *ast.CallExpr, t types.Type) *Val {
	base := fr.eval(s, call.Args[0])
	st, ok := t.Underlying().(*types.Slice)
	if !ok {
		fr.unsupported(call.Pos(), "append on "+t.String())
		return fr.freshVal(s, t, "unsup")
	}
	if isByte(st.Elem()) {
		cur := base.S
		if call.Ellipsis.IsValid() {
			o := fr.eval(s, call.Args[1])
			return &Val{T: t, S: fr.vc.define("app", "(Seq Int)", fmt.Sprintf("(seq.++ %s %s)", cur, o.S))}
		}
		for _, a := range call.Args[1:] {
			v := fr.eval(s, a)
			cur = fmt.Sprintf("(seq.++ %s (seq.unit %s))", cur, v.S)
		}
		return &Val{T: t, S: fr.vc.define("app", "(Seq Int)", cur)}
	}
	hn, hs := fr.eng.elemHeap(st.Elem())
	es := fr.eng.sortOf(st.Elem())
	if call.Ellipsis.IsValid() {
		// append(a, b...): result is a slice whose first len(a) elements are a's and the rest b's.
		o := fr.eval(s, call.Args[1])
		return fr.appendSlice(s, base, o, st, call.Pos())
	}
	cur := &Val{T: t, S: fr.vc.define("ap0", "Slice", base.S)}
	for _, a := range call.Args[1:] {
		v := fr.convertTo(s, fr.eval(s, a), st.Elem())
		cur = fr.appendOne(s, cur, v, t, hn, hs, es)
	}
	return cur
}

// appendOne models append(a, v) for non-byte slices: in place when len < cap, otherwise a fresh backing array
// holding a copy. The resulting array is a declared constant described by quantified facts over absolute
// positions (same shape as appendSlice), so that chains of appends stay matchable.
func (fr *Frame) appendOne(s *State, cur, v *Val, t types.Type, hn, hs, es string) *Val {
	if len(fr.vc.stale) > 0 {
		// bounded fallback: the store/ite form, which the solvers can build models for
		inplace := fmt.Sprintf("(< (sl_len %s) (sl_cap %s))", cur.S, cur.S)
		h := s.heap(hn, hs)
		hIn := fmt.Sprintf("(store %s (sl_ref %s) (store (select %s (sl_ref %s)) (ix (sl_off %s) (sl_len %s)) %s))", h, cur.S, h, cur.S, cur.S, cur.S, v.S)
		rIn := fmt.Sprintf("(mk_Slice (sl_ref %s) (sl_off %s) (+ (sl_len %s) 1) (sl_cap %s))", cur.S, cur.S, cur.S, cur.S)
		ref := s.alloc()
		newArr := fr.vc.declare("grown", fmt.Sprintf("(Array Int %s)", es))
		newCap := fr.vc.declare("newcap", "Int")
		s.assume(fmt.Sprintf("(> %s (sl_len %s))", newCap, cur.S))
		s.assume(fmt.Sprintf("(forall ((i Int)) (! (=> (and (<= 0 i) (< i (sl_len %s))) (= (select %s i) (select (select %s (sl_ref %s)) (ix (sl_off %s) i)))) :pattern ((select %s i))))",
			cur.S, newArr, h, cur.S, cur.S, newArr))
		hGrow := fmt.Sprintf("(store %s %s (store %s (sl_len %s) %s))", h, ref, newArr, cur.S, v.S)
		rGrow := fmt.Sprintf("(mk_Slice %s 0 (+ (sl_len %s) 1) %s)", ref, cur.S, newCap)
		s.setHeap(hn, hs, ite(inplace, hIn, hGrow))
		return &Val{T: t, S: fr.vc.define("app", "Slice", ite(inplace, rIn, rGrow))}
	}
	h := s.heap(hn, hs)
	la := "(sl_len " + cur.S + ")"
	fits := fr.vc.define("fits", "Bool", fmt.Sprintf("(< %s (sl_cap %s))", la, cur.S))
	ref := s.alloc()
	resRef := fr.vc.declare("aref", "Int")
	resOff := fr.vc.declare("aoff", "Int")
	fr.vc.facts = append(fr.vc.facts, eq(resRef, ite(fits, "(sl_ref "+cur.S+")", ref)), eq(resOff, ite(fits, "(sl_off "+cur.S+")", "0")))
	newCap := fr.vc.declare("newcap", "Int")
	s.assume(fmt.Sprintf("(> %s %s)", newCap, la))
	newArr := fr.vc.declare("apparr", fmt.Sprintf("(Array Int %s)", es))
	oldA := fmt.Sprintf("(select %s (sl_ref %s))", h, cur.S)
	s.assume(fmt.Sprintf("(forall ((i Int)) (! (=> (and (<= 0 i) (< i %s)) (= (select %s (ix %s i)) (select %s %s))) :pattern ((select %s (ix %s i)))))",
		la, newArr, resOff, oldA, elemAddr(cur, "i"), newArr, resOff))
	s.assume(fmt.Sprintf("(= (select %s (ix %s %s)) %s)", newArr, resOff, la, v.S))
	s.assume(fmt.Sprintf("(=> %s (forall ((j Int)) (! (=> (or (< j %s) (> j (+ %s %s))) (= (select %s j) (select %s j))) :pattern ((select %s j)))))",
		fits, resOff, resOff, la, newArr, oldA, newArr))
	s.setHeap(hn, hs, fmt.Sprintf("(store %s %s %s)", h, resRef, newArr))
	return &Val{T: t, S: fr.vc.define("app", "Slice", fmt.Sprintf("(mk_Slice %s %s (+ %s 1) %s)", resRef, resOff, la, ite(fits, "(sl_cap "+cur.S+")", newCap)))}
}

// appendSlice models append(a, b...) for non-byte slices.
func (fr *Frame) appendSlice(s *State, a, b *Val, st *types.Slice, pos token.Pos) *Val {
	hn, hs := fr.eng.elemHeap(st.Elem())
	es := fr.eng.sortOf(st.Elem())
	h := s.heap(hn, hs)
	la := "(sl_len " + a.S + ")"
	lb := "(sl_len " + b.S + ")"
	total := fr.vc.define("tot", "Int", fmt.Sprintf("(+ %s %s)", la, lb))
	fits := fr.vc.define("fits", "Bool", fmt.Sprintf("(<= %s (sl_cap %s))", total, a.S))
	// resulting backing array (either a's, updated in place, or a fresh one)
	ref := s.alloc()
	// declared constants with defining equations (not define-fun): they occur in quantifier patterns, where z3
	// rejects the expanded ite
	resRef := fr.vc.declare("aref", "Int")
	resOff := fr.vc.declare("aoff", "Int")
	fr.vc.facts = append(fr.vc.facts, eq(resRef, ite(fits, "(sl_ref "+a.S+")", ref)), eq(resOff, ite(fits, "(sl_off "+a.S+")", "0")))
	newCap := fr.vc.declare("newcap", "Int")
	s.assume(fmt.Sprintf("(>= %s %s)", newCap, total))
	resCap := ite(fits, "(sl_cap "+a.S+")", newCap)
	newArr := fr.vc.declare("apparr", fmt.Sprintf("(Array Int %s)", es))
	oldA := fmt.Sprintf("(select %s (sl_ref %s))", h, a.S)
	oldB := fmt.Sprintf("(select %s (sl_ref %s))", h, b.S)
	// contents: positions [off, off+la) as before (from a); [off+la, off+total) from b (memmove semantics: source read before write)
	s.assume(fmt.Sprintf("(forall ((i Int)) (! (=> (and (<= 0 i) (< i %s)) (= (select %s (ix %s i)) (select %s %s))) :pattern ((select %s (ix %s i)))))",
		la, newArr, resOff, oldA, elemAddr(a, "i"), newArr, resOff))
	// (stated over the absolute position j so that the trigger is a plain element read of the result)
	s.assume(fmt.Sprintf("(forall ((j Int)) (! (=> (and (<= %s j) (< j %s)) (= (select %s (ix %s j)) (select %s %s))) :pattern ((select %s (ix %s j)))))",
		la, total, newArr, resOff, oldB, elemAddr(b, fmt.Sprintf("(- j %s)", la)), newArr, resOff))
	// in place: cells outside the written window keep their old content
	s.assume(fmt.Sprintf("(=> %s (forall ((j Int)) (! (=> (or (< j (+ %s %s)) (>= j (+ %s %s))) (= (select %s j) (select %s j))) :pattern ((select %s j)))))",
		fits, resOff, la, resOff, total, newArr, oldA, newArr))
	s.setHeap(hn, hs, fmt.Sprintf("(store %s %s %s)", h, resRef, newArr))
	return &Val{T: st, S: fr.vc.define("app", "Slice", fmt.Sprintf("(mk_Slice %s %s %s %s)", resRef, resOff, total, resCap))}
}

func (fr *Frame) evalCopy(s *State, call *ast.CallExpr) *Val {
	dst := fr.eval(s, call.Args[0])
	src := fr.eval(s, call.Args[1])
	n := fr.vc.define("ncopy", "Int", fmt.Sprintf("(ite (<= %s %s) %s %s)", fr.lenOf(s, dst), fr.lenOf(s, src), fr.lenOf(s, dst), fr.lenOf(s, src)))
	if isByteSeq(dst.T) {
		// write through a byte slice: supported when the destination is a local variable (possibly sliced)
		fr.storeBytes(s, call.Args[0], src, n, call.Pos())
		return &Val{T: types.Typ[types.Int], S: n}
	}
	st, ok := dst.T.Underlying().(*types.Slice)
	if !ok {
		fr.unsupported(call.Pos(), "copy into "+dst.T.String())
		return &Val{T: types.Typ[types.Int], S: n}
	}
	hn, hs := fr.eng.elemHeap(st.Elem())
	es := fr.eng.sortOf(st.Elem())
	h := s.heap(hn, hs)
	newArr := fr.vc.declare("cparr", fmt.Sprintf("(Array Int %s)", es))
	oldD := fmt.Sprintf("(select %s (sl_ref %s))", h, dst.S)
	oldS := fmt.Sprintf("(select %s (sl_ref %s))", h, src.S)
	if dst.Sub != nil {
		// destination is base[d:...]: state the copied window over positions j of the base slice so that the
		// trigger is a plain element read base[j] of the result
		B, d := dst.Sub[0], dst.Sub[1]
		s.assume(fmt.Sprintf("(forall ((j Int)) (! (=> (and (<= %s j) (< j (+ %s %s))) (= (select %s (ix %s j)) (select %s %s))) :pattern ((select %s (ix %s j)))))",
			d, d, n, newArr, B, oldS, elemAddr(src, fmt.Sprintf("(- j %s)", d)), newArr, B))
	} else {
		s.assume(fmt.Sprintf("(forall ((i Int)) (! (=> (and (<= 0 i) (< i %s)) (= (select %s (ix (sl_off %s) i)) (select %s %s))) :pattern ((select %s (ix (sl_off %s) i)))))",
			n, newArr, dst.S, oldS, elemAddr(src, "i"), newArr, dst.S))
	}
	s.assume(fmt.Sprintf("(forall ((j Int)) (! (=> (or (< j (sl_off %s)) (>= j (+ (sl_off %s) %s))) (= (select %s j) (select %s j))) :pattern ((select %s j))))",
		dst.S, dst.S, n, newArr, oldD, newArr))
	s.setHeap(hn, hs, fmt.Sprintf("(store %s (sl_ref %s) %s)", h, dst.S, newArr))
	return &Val{T: types.Typ[types.Int], S: n}
}

// storeBytes models writing `n` bytes of src into the byte-slice lvalue expression dstExpr (b, b[i:], b[i:j]).
func (fr *Frame) storeBytes(s *State, dstExpr ast.Expr, src *Val, n string, pos token.Pos) {
	dstExpr = ast.Unparen(dstExpr)
	lo := "0"
	baseExpr := dstExpr
	if se, ok := dstExpr.(*ast.SliceExpr); ok {
		baseExpr = ast.Unparen(se.X)
		if se.Low != nil {
			lo = fr.eval(s, se.Low).S
		}
	}
	cur := fr.eval(s, baseExpr)
	if !fr.assignable(baseExpr) {
		fr.unsupported(pos, "write through a byte slice that is not a plain variable/field")
		return
	}
	// new = cur[0:lo] ++ src[0:n] ++ cur[lo+n:]
	nv := fmt.Sprintf("(seq.++ (seq.extract %s 0 %s) (seq.extract %s 0 %s) (seq.extract %s (+ %s %s) (- (seq.len %s) (+ %s %s))))",
		cur.S, lo, src.S, n, cur.S, lo, n, cur.S, lo, n)
	fr.assign(s, baseExpr, &Val{T: cur.T, S: fr.vc.define("bytes", "(Seq Int)", nv)}, pos)
	fr.eng.assumptions["byte slices have value semantics: a write through b[i:] updates only the variable b (no other alias of the backing array is tracked)"] = true
}

func (fr *Frame) assignable(e ast.Expr) bool {
	switch x := ast.Unparen(e).(type) {
	case *ast.Ident:
		return true
	case *ast.SelectorExpr:
		_ = x
		return true
	case *ast.IndexExpr:
		return true
	case *ast.StarExpr:
		return true
	}
	return false
}

// fieldFuncCall models a call through a func-typed struct field declared with `fieldfunc T.f hashconcat`:
// the result is hash32 of the concatenation of the byte-slice arguments.
func (fr *Frame) fieldFuncCall(s *State, f *ast.SelectorExpr, sel *types.Selection, call *ast.CallExpr) ([]*Val, bool) {
	if fr.eng.fieldFuncs == nil {
		return nil, false
	}
	rt := sel.Recv()
	if p, ok := rt.Underlying().(*types.Pointer); ok {
		rt = p.Elem()
	}
	named, ok := rt.(*types.Named)
	if !ok || named.Obj().Pkg() == nil {
		return nil, false
	}
	key := named.Obj().Pkg().Path() + "." + named.Obj().Name() + "." + sel.Obj().Name()
	mode := fr.eng.fieldFuncs[key]
	if strings.HasPrefix(mode, "assigns") {
		// a trusted frame for calls through this field: only the named heaps may change; results are unknown
		fr.eval(s, f.X)
		for _, a := range call.Args {
			fr.eval(s, a)
		}
		fr.eng.assumptions["calls through "+key+" modify nothing but: "+strings.TrimSpace(strings.TrimPrefix(mode, "assigns"))+" (trusted frame for the function value stored in that field)"] = true
		dummy := &Contract{Pkg: named.Obj().Pkg().Path()}
		for _, d := range splitTop(strings.TrimPrefix(mode, "assigns"), ",") {
			d = strings.TrimSpace(d)
			if d == "" || d == "nothing" {
				continue
			}
			hs, err := fr.eng.designatorHeaps(dummy, nil, d)
			if err != nil || len(hs) == 0 {
				fr.vc.failed = fmt.Errorf("fieldfunc %s: unsupported designator %q", key, d)
				return fr.freshResults(s, fr.typeOf(call)), true
			}
			for hn, hsort := range hs {
				before := s.heap(hn, hsort)
				s.havocHeap(hn, hsort)
				if hn == "H:big" {
					// big.Int objects held only in non-escaping locals of the caller are out of the callee's reach
					for _, o := range fr.nonEscapingBigLocals() {
						if v := s.vars[o]; v != nil && v.S != "" {
							s.assume(fmt.Sprintf("(= (select %s %s) (select %s %s))", s.heap(hn, hsort), v.S, before, v.S))
						}
					}
				}
			}
		}
		return fr.freshResults(s, fr.typeOf(call)), true
	}
	if mode != "hashconcat" {
		return nil, false
	}
	if call.Ellipsis.IsValid() {
		return nil, false
	}
	fr.eval(s, f.X) // nil-dereference obligation on the receiver
	fr.eng.hashSym()
	fr.eng.assumptions["calls through "+key+" are modelled as sha256 of the concatenated arguments (the value stored in the field is assumed to be common.Hasher)"] = true
	cat := "(as seq.empty (Seq Int))"
	var parts []string
	for _, a := range call.Args {
		v := fr.eval(s, a)
		if !isByteSeq(v.T) {
			return nil, false
		}
		parts = append(parts, v.S)
	}
	if len(parts) == 1 {
		cat = parts[0]
	} else if len(parts) > 1 {
		cat = "(seq.++ " + strings.Join(parts, " ") + ")"
	}
	return []*Val{{T: fr.typeOf(call), S: fr.vc.define("hsum", "(Seq Int)", "(hash32 "+cat+")")}}, true
}

// cgoPure: C helper functions of cgo itself. They allocate or copy C/Go memory and never run Go code or touch Go
// objects that existed before the call. (Every other C.f(...) can call back into Go and is havoc.)
var cgoPure = map[string]bool{"CString": true, "GoString": true, "GoStringN": true, "GoBytes": true, "CBytes": true, "free": true}

// cgoCall models C.f(args): the pseudo-package C is not type-checked here (no C headers in the sandbox), so its
// values are opaque integers.
func (fr *Frame) cgoCall(s *State, f *ast.SelectorExpr, call *ast.CallExpr) ([]*Val, bool) {
	id, ok := f.X.(*ast.Ident)
	if !ok || id.Name != "C" {
		return nil, false
	}
	if o := fr.info.Uses[id]; o != nil {
		if pn, isPkg := o.(*types.PkgName); !isPkg || pn.Imported().Path() != "C" {
			return nil, false
		}
	}
	for _, a := range call.Args {
		fr.eval(s, a)
	}
	t := fr.typeOf(call)
	if t == nil {
		t = types.Typ[types.Invalid]
	}
	if !cgoPure[f.Sel.Name] {
		if len(call.Args) == 1 && !isLowerCFunc(f.Sel.Name) {
			// C.int(x), C.size_t(x): a conversion
			return []*Val{fr.freshVal(s, t, "cconv")}, true
		}
		fr.imprecise(call.Pos(), "call into C")
		return fr.havocCall(s, t, "C."+f.Sel.Name+" at "+fr.eng.posStr(call.Pos())), true
	}
	fr.eng.trustedUsed["model:cgo helper C."+f.Sel.Name+" (allocates/copies only; CString never returns NULL)"] = true
	switch f.Sel.Name {
	case "GoString", "GoStringN":
		t = types.Typ[types.String]
	case "GoBytes":
		t = types.NewSlice(types.Typ[types.Uint8])
	}
	v := fr.freshVal(s, t, "c"+f.Sel.Name)
	if f.Sel.Name == "CString" && fr.eng.sortOf(t) == "Int" {
		s.assume(fmt.Sprintf("(> %s 0)", v.S))
	}
	return []*Val{v}, true
}

// isLowerCFunc: C type names used as conversions in this code base are int, uint, char, size_t, lua_Integer, ...;
// everything containing an underscore followed by a verb-like name or known VM prefixes is a function.
func isLowerCFunc(name string) bool {
	for _, p := range []string{"lua", "vm_", "sqlite3_", "db_", "bignum_", "contract_"} {
		if strings.HasPrefix(name, p) && name != "lua_Integer" && name != "lua_Number" {
			return true
		}
	}
	return false
}

// pureFuncVar: a func-typed local variable of the function under verification all of whose assignments (in the
// whole body, closures included) are names of declared functions that carry a `pure` contract. A call through it
// is then a call to one of those functions: no heap effect, unknown results. (Their preconditions are not checked:
// only contracts without requires qualify.)
func (fr *Frame) pureFuncVar(o *types.Var) bool {
	if fr.fi == nil || fr.fi.Decl.Body == nil || o.IsField() || o.Parent() == nil || o.Parent() == o.Pkg().Scope() {
		return false
	}
	if _, ok := o.Type().Underlying().(*types.Signature); !ok {
		return false
	}
	info := fr.fi.Pkg.TypesInfo
	okAll, seen := true, false
	check := func(rhs ast.Expr) {
		id, ok := ast.Unparen(rhs).(*ast.Ident)
		if !ok {
			okAll = false
			return
		}
		f, ok := info.Uses[id].(*types.Func)
		if !ok {
			okAll = false
			return
		}
		c := fr.eng.contractFor(f)
		if c == nil || !c.Pure || len(c.Requires) > 0 {
			okAll = false
			return
		}
		c.Used = true
		fr.eng.trustedUsed["call through func variable "+o.Name()+" resolved to pure "+funcKey(f)] = true
		seen = true
	}
	ast.Inspect(fr.fi.Decl.Body, func(n ast.Node) bool {
		switch x := n.(type) {
		case *ast.AssignStmt:
			for i, l := range x.Lhs {
				if id, ok := l.(*ast.Ident); ok && (info.Uses[id] == o || info.Defs[id] == o) {
					if len(x.Rhs) == len(x.Lhs) {
						check(x.Rhs[i])
					} else {
						okAll = false
					}
				}
			}
		case *ast.ValueSpec:
			for i, id := range x.Names {
				if info.Defs[id] == o && i < len(x.Values) {
					check(x.Values[i])
				}
			}
		case *ast.UnaryExpr:
			if x.Op == token.AND {
				if id, ok := ast.Unparen(x.X).(*ast.Ident); ok && info.Uses[id] == o {
					okAll = false // address taken
				}
			}
		}
		return true
	})
	return okAll && seen
}

// nonEscapingBigLocals: local *big.Int variables of the function under verification whose every use is as the
// receiver or an argument of a math/big call, or the left-hand side of an assignment from such a call chain.
// Such an object cannot be reached by code that is not handed the variable.
func (fr *Frame) nonEscapingBigLocals() []*types.Var {
	if fr.fi == nil || fr.fi.Decl.Body == nil {
		return nil
	}
	info := fr.fi.Pkg.TypesInfo
	uses := map[*types.Var]int{}
	okUses := map[*types.Var]int{}
	isBigCall := func(c *ast.CallExpr) bool {
		switch f := ast.Unparen(c.Fun).(type) {
		case *ast.SelectorExpr:
			if sel, ok := info.Selections[f]; ok {
				if fn, ok := sel.Obj().(*types.Func); ok && fn.Pkg() != nil && fn.Pkg().Path() == "math/big" {
					return true
				}
			} else if fn, ok := info.Uses[f.Sel].(*types.Func); ok && fn.Pkg() != nil && fn.Pkg().Path() == "math/big" {
				return true
			}
		}
		return false
	}
	local := func(id *ast.Ident) *types.Var {
		o, _ := info.Uses[id].(*types.Var)
		if o == nil || o.IsField() || o.Pkg() == nil || o.Parent() == o.Pkg().Scope() || !isBigInt(o.Type()) {
			return nil
		}
		if id.Pos() < fr.fi.Decl.Body.Pos() || id.Pos() > fr.fi.Decl.Body.End() {
			return nil
		}
		return o
	}
	ast.Inspect(fr.fi.Decl.Body, func(n ast.Node) bool {
		switch x := n.(type) {
		case *ast.Ident:
			if o := local(x); o != nil {
				uses[o]++
			}
		case *ast.CallExpr:
			if isBigCall(x) {
				if sel, ok := ast.Unparen(x.Fun).(*ast.SelectorExpr); ok {
					if id, ok := ast.Unparen(sel.X).(*ast.Ident); ok {
						if o := local(id); o != nil {
							okUses[o]++
						}
					}
				}
				for _, a := range x.Args {
					if id, ok := ast.Unparen(a).(*ast.Ident); ok {
						if o := local(id); o != nil {
							okUses[o]++
						}
					}
				}
			}
		case *ast.AssignStmt:
			for i, l := range x.Lhs {
				if id, ok := l.(*ast.Ident); ok && i < len(x.Rhs) {
					if o := local(id); o != nil {
						if c, ok := ast.Unparen(x.Rhs[i]).(*ast.CallExpr); ok && isBigCall(c) {
							okUses[o]++
						}
					}
				}
			}
		}
		return true
	})
	var out []*types.Var
	for o, n := range uses {
		if okUses[o] == n {
			out = append(out, o)
		}
	}
	// parameters may alias anything: only variables declared in the body qualify
	var res []*types.Var
	for _, o := range out {
		if o.Pos() >= fr.fi.Decl.Body.Pos() {
			res = append(res, o)
		}
	}
	return res
}

// reflectModel: the one reflection idiom of this code base, an indexed view of a struct whose fields are all
// unsigned integers: v := reflect.ValueOf(structValue); v.NumField(); v.Field(i).Uint().
// ValueOf keeps the struct value (Val.Dyn), Field keeps the index (Val.Multi), Uint selects by index.
func (fr *Frame) reflectModel(s *State, f *types.Func, recv *Val, args []*Val, call *ast.CallExpr) ([]*Val, bool) {
	n := fullName(f)
	sig := f.Type().(*types.Signature)
	switch n {
	case "reflect.ValueOf":
		if len(args) != 1 || args[0] == nil {
			return nil, false
		}
		src := args[0]
		if src.Dyn != nil {
			src = src.Dyn // boxed into interface{} by the call
		}
		st, ok := src.T.Underlying().(*types.Struct)
		if !ok {
			return nil, false
		}
		for i := 0; i < st.NumFields(); i++ {
			b, ok := st.Field(i).Type().Underlying().(*types.Basic)
			if !ok || b.Info()&types.IsUnsigned == 0 {
				return nil, false
			}
		}
		fr.eng.trustedUsed["model:reflect.ValueOf/NumField/Field/Uint as an indexed view of a struct of unsigned integers"] = true
		v := fr.freshVal(s, sig.Results().At(0).Type(), "rv")
		v.Dyn = src
		return []*Val{v}, true
	case "reflect.Value.NumField":
		if recv == nil || recv.Dyn == nil {
			return nil, false
		}
		st, ok := recv.Dyn.T.Underlying().(*types.Struct)
		if !ok {
			return nil, false
		}
		return []*Val{{T: sig.Results().At(0).Type(), S: fmt.Sprintf("%d", st.NumFields())}}, true
	case "reflect.Value.Field":
		if recv == nil || recv.Dyn == nil || len(args) != 1 {
			return nil, false
		}
		st, ok := recv.Dyn.T.Underlying().(*types.Struct)
		if !ok {
			return nil, false
		}
		fr.vc.oblige(s, "idx", fmt.Sprintf("(and (<= 0 %s) (< %s %d))", args[0].S, args[0].S, st.NumFields()), call.Pos(), "reflect: Field index out of range")
		v := fr.freshVal(s, sig.Results().At(0).Type(), "rf")
		v.Dyn = recv.Dyn
		v.Multi = []*Val{args[0]}
		return []*Val{v}, true
	case "reflect.Value.Uint":
		if recv == nil || recv.Dyn == nil || len(recv.Multi) != 1 {
			return nil, false
		}
		st, ok := recv.Dyn.T.Underlying().(*types.Struct)
		if !ok {
			return nil, false
		}
		si := fr.eng.structSort(recv.Dyn.T)
		term := "0"
		for i := st.NumFields() - 1; i >= 0; i-- {
			fv := app(si.acc(i), recv.Dyn.S)
			if i == st.NumFields()-1 {
				term = fv
			} else {
				term = ite(eq(recv.Multi[0].S, fmt.Sprintf("%d", i)), fv, term)
			}
		}
		return []*Val{{T: sig.Results().At(0).Type(), S: fr.vc.define("ruint", "Int", term)}}, true
	}
	return nil, false
}
