package main

import (
	"fmt"
	"go/token"
	"go/types"
)

// Using an interface value as a map key panics at run time when its dynamic type is not comparable
// ("hash of unhashable type"). hashable_tag is an uninterpreted predicate over dynamic-type ids; its value is
// asserted for every type that is boxed by the code under verification, so a key that comes from outside
// (e.g. decoded JSON) is not provably hashable.

func (e *Engine) hashableSym() string {
	if _, ok := e.syms.syms["hashable_tag"]; !ok {
		e.syms.add("hashable_tag", "(declare-fun hashable_tag (Int) Bool)\n(assert (hashable_tag 0))")
	}
	return "hashable_tag"
}

func (fr *Frame) hashableFact(s *State, t types.Type, id int) {
	f := fr.eng.hashableSym()
	if types.Comparable(t) {
		s.assume(fmt.Sprintf("(%s %d)", f, id))
	} else {
		s.assume(fmt.Sprintf("(not (%s %d))", f, id))
	}
}

// mapKeyCheck emits the obligation for an interface-typed key.
func (fr *Frame) mapKeyCheck(s *State, m *types.Map, k *Val, pos token.Pos) {
	if _, ok := m.Key().Underlying().(*types.Interface); !ok {
		return
	}
	f := fr.eng.hashableSym()
	fr.vc.oblige(s, "hashkey", fmt.Sprintf("(%s (tagof %s))", f, k.S), pos, "map key of interface type may hold an unhashable dynamic type (runtime panic)")
}

// jsonFuncs declares the uninterpreted decoding functions for target type t.
func (e *Engine) jsonFuncs(t types.Type) (dec, errf string) {
	srt := e.sortOf(t)
	k := sortKey(srt)
	dec, errf = "json_"+k, "json_err_"+k
	if _, ok := e.syms.syms[dec]; !ok {
		e.syms.add(dec, fmt.Sprintf("(declare-fun %s ((Seq Int)) %s)", dec, srt))
		e.syms.add(errf, fmt.Sprintf("(declare-fun %s ((Seq Int)) Int)", errf))
	}
	e.trustedUsed["model: encoding/json.Unmarshal is a deterministic function of its input bytes"] = true
	return
}
