package main

import (
	"fmt"
	"go/ast"
	"go/token"
	"go/types"
	"strings"
)

type retRec struct {
	s    *State
	vals []*Val
}

type loopCtx struct {
	label     string
	breaks    []*State
	continues []*State
	isSwitch  bool
	spec      *LoopSpec // contract clauses of this loop (break hints), when it is cut at invariants
	ord       int
	extra     map[string]*Val // special names (idx_) available to step/break hints
}

// Frame is one (verified or inlined) function activation.
type Frame struct {
	eng      *Engine
	vc       *VC
	fi       *FuncInfo
	info     *types.Info
	pkg      *types.Package
	sig      *types.Signature
	contract *Contract
	entry    *State // state at function entry (for old())
	returns  []retRec
	loops    []*loopCtx
	depth    int
	parent   *Frame
	results  []*types.Var
	lets     map[string]*Val
	boxedSet map[types.Object]bool
	topLevel bool
	lit      *ast.FuncLit
	callStack []string
	bigTemps []bigTemp
}

// bigTemp: a temporary *big.Int standing for the address of a big.Int struct field (see addrOf).
type bigTemp struct {
	ref  string
	expr *ast.SelectorExpr
}

// flushBigTemps writes the values behind temporary field addresses back into the fields.
func (fr *Frame) flushBigTemps(s *State, n int) {
	if len(fr.bigTemps) <= n || s == nil || s.g == "false" {
		fr.bigTemps = fr.bigTemps[:n]
		return
	}
	ts := fr.bigTemps[n:]
	fr.bigTemps = fr.bigTemps[:n]
	for _, t := range ts {
		v := &Val{T: fr.typeOf(t.expr), S: fmt.Sprintf("(select %s %s)", s.heap("H:big", "(Array Int Int)"), t.ref)}
		fr.assign(s, t.expr, v, t.expr.Pos())
	}
}

func (fr *Frame) unsupported(pos token.Pos, what string) {
	msg := fmt.Sprintf("%s: unsupported: %s", fr.eng.posStr(pos), what)
	if fr.vc.failed == nil {
		fr.vc.failed = fmt.Errorf("%s", msg)
	}
}

// imprecise records a construct that is over-approximated by havoc (sound, may cost provability).
func (fr *Frame) imprecise(pos token.Pos, what string) {
	fr.eng.dropped["havoc:"+what]++
	if fr.eng.verbose {
		fmt.Printf("  note %s: havoc for %s\n", fr.eng.posStr(pos), what)
	}
}

func (fr *Frame) typeOf(e ast.Expr) types.Type {
	if tv, ok := fr.info.Types[e]; ok && tv.Type != nil {
		return tv.Type
	}
	if id, ok := e.(*ast.Ident); ok {
		if o := fr.info.ObjectOf(id); o != nil {
			return o.Type()
		}
	}
	return nil
}

// freshVal creates an unconstrained value of type t with its type facts assumed.
func (fr *Frame) freshVal(s *State, t types.Type, prefix string) *Val {
	if t == nil {
		t = types.Typ[types.Int]
	}
	if tup, ok := t.(*types.Tuple); ok {
		v := &Val{T: t}
		for i := 0; i < tup.Len(); i++ {
			v.Multi = append(v.Multi, fr.freshVal(s, tup.At(i).Type(), prefix))
		}
		return v
	}
	n := fr.vc.declare(prefix, fr.eng.sortOf(t))
	v := &Val{T: t, S: n}
	s.assume(fr.eng.typeFact(v, s.next))
	return v
}

// typeFact returns the well-formedness fact of a value of its Go type.
func (e *Engine) typeFact(v *Val, next string) string {
	t := v.T
	if isBigInt(t) {
		return "true"
	}
	switch u := t.Underlying().(type) {
	case *types.Basic:
		if lo, hi, ok := intRange(t); ok {
			return fmt.Sprintf("(and (<= %s %s) (<= %s %s))", lo, v.S, v.S, hi)
		}
		if u.Info()&types.IsString != 0 {
			// Go: len <= 2^63-1; no object is larger than the address space (2^62 keeps len+len in range)
			return fmt.Sprintf("(<= (seq.len %s) 4611686018427387904)", v.S)
		}
		return "true"
	case *types.Pointer, *types.Map, *types.Chan, *types.Signature:
		if next != "" {
			return fmt.Sprintf("(and (<= 0 %s) (< %s %s))", v.S, v.S, next)
		}
		return fmt.Sprintf("(<= 0 %s)", v.S)
	case *types.Interface:
		return fmt.Sprintf("(and (= (= %s 0) (= (tagof %s) 0)) (>= (tagof %s) 0))", v.S, v.S, v.S)
	case *types.Slice:
		if isByte(u.Elem()) {
			return fmt.Sprintf("(<= (seq.len %s) 4611686018427387904)", v.S)
		}
		return sliceWF(v.S, next)
	case *types.Array:
		if isByte(u.Elem()) {
			return fmt.Sprintf("(= (seq.len %s) %d)", v.S, u.Len())
		}
		return "true"
	case *types.Struct:
		si := e.structSort(t)
		var fs []string
		for i, f := range si.Fields {
			ft := f.Type()
			switch ft.Underlying().(type) {
			case *types.Basic, *types.Slice, *types.Pointer, *types.Map, *types.Interface, *types.Array:
				sub := &Val{T: ft, S: app(si.acc(i), v.S)}
				fs = append(fs, e.typeFact(sub, next))
			case *types.Struct:
				if !isBigInt(ft) {
					sub := &Val{T: ft, S: app(si.acc(i), v.S)}
					fs = append(fs, e.typeFact(sub, next))
				}
			}
		}
		return and(fs...)
	}
	return "true"
}

func sliceWF(s string, next string) string {
	f := fmt.Sprintf("(and (<= 0 (sl_ref %s)) (<= 0 (sl_off %s)) (<= 0 (sl_len %s)) (<= (sl_len %s) (sl_cap %s)) (<= (+ (sl_off %s) (sl_cap %s)) 4611686018427387904) (=> (= (sl_ref %s) 0) (= (sl_cap %s) 0))",
		s, s, s, s, s, s, s, s, s)
	if next != "" {
		f += fmt.Sprintf(" (< (sl_ref %s) %s)", s, next)
	}
	return f + ")"
}

// readFact assumes type facts for a value read out of the heap / a container.
func (fr *Frame) readFact(s *State, v *Val) *Val {
	if v == nil || v.T == nil {
		return v
	}
	switch v.T.Underlying().(type) {
	case *types.Basic, *types.Pointer, *types.Map, *types.Interface, *types.Slice, *types.Array:
		f := fr.eng.typeFact(v, s.next)
		if f != "true" {
			if len(v.S) > 40 {
				v = &Val{T: v.T, S: fr.vc.define("rd", fr.eng.sortOf(v.T), v.S)}
				f = fr.eng.typeFact(v, s.next)
			}
			s.assume(f)
		}
	}
	return v
}

func (e *Engine) zeroOf(t types.Type) string {
	if isBigInt(t) {
		return "0"
	}
	switch u := t.Underlying().(type) {
	case *types.Basic:
		switch {
		case u.Info()&types.IsBoolean != 0:
			return "false"
		case u.Info()&types.IsString != 0:
			return "(as seq.empty (Seq Int))"
		case u.Info()&types.IsFloat != 0:
			return "0.0"
		}
		return "0"
	case *types.Slice:
		if isByte(u.Elem()) {
			return "(as seq.empty (Seq Int))"
		}
		return "(mk_Slice 0 0 0 0)"
	case *types.Array:
		if isByte(u.Elem()) {
			// N zero bytes
			if u.Len() == 0 {
				return "(as seq.empty (Seq Int))"
			}
			return e.zeroBytes(int(u.Len()))
		}
		return fmt.Sprintf("((as const (Array Int %s)) %s)", e.sortOf(u.Elem()), e.zeroOf(u.Elem()))
	case *types.Struct:
		si := e.structSort(t)
		if len(si.Fields) == 0 {
			return "mk_" + si.Sort
		}
		var fs []string
		for _, f := range si.Fields {
			fs = append(fs, e.zeroOf(f.Type()))
		}
		return "(mk_" + si.Sort + " " + strings.Join(fs, " ") + ")"
	}
	return "0"
}

func (e *Engine) zeroBytes(n int) string {
	name := fmt.Sprintf("zerobytes%d", n)
	if _, ok := e.syms.syms[name]; !ok {
		e.syms.add(name, fmt.Sprintf("(declare-fun %s () (Seq Int))\n(assert (= (seq.len %s) %d))\n(assert (forall ((i Int)) (! (=> (and (<= 0 i) (< i %d)) (= (seq.nth %s i) 0)) :pattern ((seq.nth %s i)))))", name, name, n, n, name, name))
	}
	return name
}

// heap names ---------------------------------------------------------------

func (e *Engine) ptrHeap(elem types.Type) (string, string) {
	if isBigInt(elem) {
		return "H:big", "(Array Int Int)"
	}
	srt := e.sortOf(elem)
	if _, isStruct := elem.Underlying().(*types.Struct); isStruct {
		e.noteHeapType("H:"+sortKey(srt), elem)
		return "H:" + sortKey(srt), "(Array Int " + srt + ")"
	}
	e.noteHeapType("H:"+typeKey(elem), elem)
	// pointers to different Go types never alias (no unsafe): one heap per pointee type
	return "H:" + typeKey(elem), "(Array Int " + srt + ")"
}

// typeKey is a stable, SMT-safe name for a Go type.
func typeKey(t types.Type) string {
	return sanitize(types.TypeString(t, func(p *types.Package) string { return p.Name() }))
}

// chanHeap: the last value sent on each channel of this element type (ghost).
func (e *Engine) chanHeap(elem types.Type) (string, string) {
	return "R:chansent_" + typeKey(elem), "(Array Int " + e.sortOf(elem) + ")"
}

func (e *Engine) elemHeap(elem types.Type) (string, string) {
	srt := e.sortOf(elem)
	// backing arrays of slices with different element types never alias: one heap per element type
	e.noteHeapType("E:"+typeKey(elem), elem)
	return "E:" + typeKey(elem), "(Array Int (Array Int " + srt + "))"
}

func (e *Engine) mapHeaps(m *types.Map) (vn, vs, dn, ds string) {
	ks := e.sortOf(m.Key())
	es := e.sortOf(m.Elem())
	// maps of different Go types never alias: one pair of heaps per (key type, element type)
	k := typeKey(m.Key()) + "__" + typeKey(m.Elem())
	return "M:" + k, fmt.Sprintf("(Array Int (Array %s %s))", ks, es), "D:" + k, fmt.Sprintf("(Array Int (Array %s Bool))", ks)
}

func (e *Engine) globalHeap(v *types.Var) (string, string) {
	pfx := "G:"
	if !e.assigned[v] {
		pfx = "GC:"
	}
	p := ""
	if v.Pkg() != nil {
		p = v.Pkg().Path()
	}
	return pfx + p + "." + v.Name(), e.sortOf(v.Type())
}

// struct helpers ------------------------------------------------------------

func (e *Engine) getField(v *Val, idx int) *Val {
	si := e.structSort(v.T)
	return &Val{T: si.Fields[idx].Type(), S: app(si.acc(idx), v.S)}
}

func (e *Engine) setField(v *Val, idx int, nv string) *Val {
	si := e.structSort(v.T)
	args := make([]string, len(si.Fields))
	for i := range si.Fields {
		if i == idx {
			args[i] = nv
		} else {
			args[i] = app(si.acc(i), v.S)
		}
	}
	return &Val{T: v.T, S: app("mk_"+si.Sort, args...)}
}

// boxing of values into interfaces -----------------------------------------

func (e *Engine) boxFuncs(sort string) (box, unbox string) {
	k := sortKey(sort)
	box, unbox = "box_"+k, "unbox_"+k
	if _, ok := e.syms.syms[box]; !ok {
		e.syms.add(box, fmt.Sprintf("(declare-fun %s (Int %s) Int)", box, sort))
		e.syms.add(unbox, fmt.Sprintf("(declare-fun %s (Int) %s)", unbox, sort))
	}
	return
}

// toIface converts v (static type v.T) to interface type `to`.
func (fr *Frame) toIface(s *State, v *Val, to types.Type) *Val {
	if v.T == nil {
		return &Val{T: to, S: v.S}
	}
	if _, ok := v.T.Underlying().(*types.Interface); ok {
		return &Val{T: to, S: v.S}
	}
	if b, ok := v.T.Underlying().(*types.Basic); ok && b.Kind() == types.UntypedNil {
		return &Val{T: to, S: "0"}
	}
	t := types.Default(v.T)
	id := fr.eng.typeID(t)
	srt := fr.eng.sortOf(t)
	box, unbox := fr.eng.boxFuncs(srt)
	term := fmt.Sprintf("(%s %d %s)", box, id, v.S)
	name := fr.vc.define("ifc", "Int", term)
	s.assume(fmt.Sprintf("(and (= (tagof %s) %d) (= (%s %s) %s) (> %s 0))", name, id, unbox, name, v.S, name))
	fr.hashableFact(s, t, id)
	if _, isPtr := t.Underlying().(*types.Pointer); isPtr {
		fr.eng.streamSyms()
		s.assume(fmt.Sprintf("(= (wkey %s) %s)", name, v.S))
	}
	return &Val{T: to, S: name, Dyn: &Val{T: t, S: v.S}}
}

// convertTo performs the implicit assignability conversion of v to type t.
func (fr *Frame) convertTo(s *State, v *Val, t types.Type) *Val {
	if v == nil || t == nil || v.T == nil {
		return v
	}
	if _, ok := t.Underlying().(*types.Interface); ok {
		if _, isI := v.T.Underlying().(*types.Interface); !isI {
			return fr.toIface(s, v, t)
		}
		return &Val{T: t, S: v.S, Fn: v.Fn, Dyn: v.Dyn}
	}
	if b, ok := v.T.Underlying().(*types.Basic); ok && b.Kind() == types.UntypedNil {
		return &Val{T: t, S: fr.eng.zeroOf(t)}
	}
	if types.Identical(v.T, t) {
		return v
	}
	return &Val{T: t, S: v.S, Fn: v.Fn, Const: v.Const, Dyn: v.Dyn, Sub: v.Sub}
}

// havocEverything forgets the whole heap and all mutable globals; global invariants hold again afterwards
// (they are assumed at every call boundary).
func (fr *Frame) havocEverything(s *State) {
	s.havocAll()
	fr.assumeGlobalInvs(s)
}

func (fr *Frame) assumeGlobalInvs(s *State) {
	for _, gi := range fr.eng.globalInvs {
		pp := fr.eng.pkgs[gi.Pkg]
		if pp == nil || pp.Types == nil {
			continue
		}
		env := &SpecEnv{eng: fr.eng, vc: fr.vc, s: s, old: s, names: map[string]*Val{}, pkg: pp.Types, fr: fr}
		t := env.evalBool(gi.C.E)
		if env.err != nil {
			fr.vc.failed = fmt.Errorf("global-inv %q: %v", gi.C.Text, env.err)
			return
		}
		fr.eng.assumptions["global invariant assumed at every call boundary ("+shortKey(gi.Pkg)+"): "+gi.C.Text] = true
		s.assume(t)
	}
}

func (e *Engine) noteHeapType(name string, t types.Type) {
	if e.heapTypes == nil {
		e.heapTypes = map[string]types.Type{}
	}
	if _, ok := e.heapTypes[name]; !ok {
		e.heapTypes[name] = t
	}
}

// heapWellTyped: every object (H:) / element (E:) stored in a heap is a well-typed Go value: integers are in
// the range of their type, slice headers are well formed, byte strings are not absurdly long. The heap model
// assumes this of the initial heap and of every heap returned by unknown code; writes are range-checked.
func (e *Engine) heapWellTyped(name, sym string) string {
	return e.heapWellTypedBound(name, sym, "")
}

// heapWellTypedBound: with a bound (the allocation counter at function entry), pointers stored in the heap also
// refer to objects that exist (every pointer held anywhere at entry points to an object allocated before entry).
func (e *Engine) heapWellTypedBound(name, sym, bound string) string {
	t := e.heapTypes[name]
	if t == nil {
		return ""
	}
	var v *Val
	var binders, pat string
	switch {
	case strings.HasPrefix(name, "H:"):
		v = &Val{T: t, S: "(select " + sym + " r)"}
		binders, pat = "((r Int))", "(select "+sym+" r)"
	case strings.HasPrefix(name, "E:"):
		v = &Val{T: t, S: "(select (select " + sym + " r) i)"}
		binders, pat = "((r Int) (i Int))", "(select (select "+sym+" r) i)"
	default:
		return ""
	}
	f := e.typeFact(v, bound)
	if f == "true" || isBigInt(t) {
		return ""
	}
	e.assumptions["every value stored in the heap is well typed (integers within the range of their Go type, slice headers well formed): assumed of the initial heap and of heaps returned by unknown code; writes are range-checked"] = true
	return fmt.Sprintf("\n(assert (forall %s (! %s :pattern (%s))))", binders, f, pat)
}
