package main

// Solver racing: every obligation is sent to z3-new, z3 and cvc5 in parallel; the first definitive
// answer wins.

import (
	"bytes"
	"context"
	"fmt"
	"os"
	"os/exec"
	"path/filepath"
	"strings"
	"sync"
	"time"
)

type SolveResult struct {
	Status  string // unsat | sat | unknown | timeout | error
	Solver  string
	Ms      int64
	Model   map[string]string
	Raw     string
	Others  map[string]string // status by other solvers (when they finished)
	File    string
}

type solverDef struct {
	name string
	cmd  func(file string, timeoutS int) []string
	cvc5 bool
}

var solvers = []solverDef{
	{"z3-new", func(f string, t int) []string { return []string{"z3-new", fmt.Sprintf("-T:%d", t), f} }, false},
	{"z3", func(f string, t int) []string { return []string{"z3", fmt.Sprintf("-T:%d", t), f} }, false},
	{"cvc5", func(f string, t int) []string {
		return []string{"cvc5", "--strings-exp", fmt.Sprintf("--tlimit=%d", t*1000), f}
	}, true},
}

func runSolver(ctx context.Context, sd solverDef, file string, timeoutS int) (status string, raw string, ms int64) {
	args := sd.cmd(file, timeoutS)
	c, cancel := context.WithTimeout(ctx, time.Duration(timeoutS+2)*time.Second)
	defer cancel()
	cmd := exec.CommandContext(c, args[0], args[1:]...)
	var out bytes.Buffer
	cmd.Stdout = &out
	cmd.Stderr = &out
	t0 := time.Now()
	_ = cmd.Run()
	ms = time.Since(t0).Milliseconds()
	raw = out.String()
	first := ""
	for _, l := range strings.Split(raw, "\n") {
		l = strings.TrimSpace(l)
		if l == "" || strings.HasPrefix(l, "WARNING") || strings.HasPrefix(l, "(warning") {
			continue
		}
		if strings.HasPrefix(l, "(error") {
			// an error before the answer means part of the query was rejected: the answer is meaningless
			first = "error"
			break
		}
		first = l
		break
	}
	switch first {
	case "unsat", "sat", "unknown":
		status = first
	case "timeout":
		status = "timeout"
	default:
		if c.Err() != nil || ctx.Err() != nil {
			status = "timeout"
		} else if strings.Contains(raw, "interrupted") || strings.Contains(raw, "timeout") {
			status = "timeout"
		} else {
			status = "error"
		}
	}
	return
}

// solve races the solvers on one obligation.
func solveObligation(o *Obligation, dir string, timeoutS int, all bool) *SolveResult {
	if o.Cover && !o.pruneQuery {
		// vacuity checks only need "not unsat": a short limit, but every solver gets to answer
		timeoutS = 2
		all = true
	}
	base := filepath.Join(dir, sanitizeFile(o.Name))
	qz := o.vc.query(o, false)
	qc := o.vc.query(o, true)
	fz := base + ".smt2"
	fc := base + ".cvc5.smt2"
	os.WriteFile(fz, []byte(qz), 0o644)
	os.WriteFile(fc, []byte(qc), 0o644)
	ctx, cancel := context.WithCancel(context.Background())
	defer cancel()
	type ans struct {
		sd     solverDef
		status string
		raw    string
		ms     int64
	}
	ch := make(chan ans, len(solvers))
	for _, sd := range solvers {
		sd := sd
		go func() {
			f := fz
			if sd.cvc5 {
				f = fc
			}
			st, raw, ms := runSolver(ctx, sd, f, timeoutS)
			ch <- ans{sd, st, raw, ms}
		}()
	}
	res := &SolveResult{Status: "unknown", Others: map[string]string{}, File: fz}
	var definitive *ans
	for i := 0; i < len(solvers); i++ {
		a := <-ch
		res.Others[a.sd.name] = a.status
		if a.status == "unsat" || a.status == "sat" {
			if definitive == nil {
				aa := a
				definitive = &aa
				if !all {
					cancel()
					break
				}
			} else if definitive.status != a.status {
				res.Status = "error"
				res.Raw = fmt.Sprintf("solver disagreement: %s=%s, %s=%s", definitive.sd.name, definitive.status, a.sd.name, a.status)
				return res
			}
		} else if definitive == nil {
			if res.Status == "unknown" && a.status == "timeout" {
				res.Status = "timeout"
			}
			if a.status == "error" && res.Raw == "" {
				res.Raw = a.sd.name + ": " + firstLines(a.raw, 3)
			}
		}
	}
	if definitive == nil {
		nerr := 0
		for _, st := range res.Others {
			if st == "error" {
				nerr++
			}
		}
		if nerr == len(res.Others) && nerr > 0 {
			res.Status = "error" // every solver rejected the query: an engine problem, not a verdict
		}
	}
	if definitive != nil {
		res.Status = definitive.status
		res.Solver = definitive.sd.name
		res.Ms = definitive.ms
		res.Raw = definitive.raw
		if definitive.status == "sat" {
			res.Model = parseModel(definitive.raw)
		}
	}
	return res
}

func firstLines(s string, n int) string {
	ls := strings.Split(s, "\n")
	if len(ls) > n {
		ls = ls[:n]
	}
	return strings.Join(ls, " | ")
}

func sanitizeFile(s string) string {
	var b strings.Builder
	for _, r := range s {
		switch {
		case r >= 'a' && r <= 'z', r >= 'A' && r <= 'Z', r >= '0' && r <= '9', r == '_', r == '.', r == '-', r == '#':
			b.WriteRune(r)
		default:
			b.WriteByte('_')
		}
	}
	return b.String()
}

// parseModel parses the (get-value ...) answer "((sym val) (sym val))".
func parseModel(raw string) map[string]string {
	m := map[string]string{}
	i := strings.Index(raw, "\nsat")
	if strings.HasPrefix(raw, "sat") {
		i = 0
	} else if i >= 0 {
		i++
	}
	if i < 0 {
		return m
	}
	j := strings.Index(raw[i:], "\n")
	if j < 0 {
		return m
	}
	body := strings.TrimSpace(raw[i+j+1:])
	if !strings.HasPrefix(body, "(") {
		return m
	}
	// tokenise into top-level pairs
	depth := 0
	start := -1
	for j := 0; j < len(body); j++ {
		switch body[j] {
		case '(':
			depth++
			if depth == 2 {
				start = j
			}
		case ')':
			if depth == 2 && start >= 0 {
				pair := body[start+1 : j]
				sp := strings.IndexAny(pair, " \n")
				if sp > 0 {
					m[pair[:sp]] = strings.TrimSpace(pair[sp+1:])
				}
				start = -1
			}
			depth--
			if depth == 0 {
				return m
			}
		}
	}
	return m
}

// solveAll discharges obligations with a worker pool.
func solveAll(obls []*Obligation, dir string, timeoutS int, workers int, all bool) {
	os.MkdirAll(dir, 0o755)
	var wg sync.WaitGroup
	ch := make(chan *Obligation)
	for w := 0; w < workers; w++ {
		wg.Add(1)
		go func() {
			defer wg.Done()
			for o := range ch {
				o.Result = solveObligation(o, dir, timeoutS, all)
			}
		}()
	}
	for _, o := range obls {
		ch <- o
	}
	close(ch)
	wg.Wait()
}
