package main

import (
	"bufio"
	"encoding/json"
	"flag"
	"fmt"
	"os"
	"path/filepath"
	"sort"
	"strconv"
	"strings"
	"time"
)

type PropSpec struct {
	ID          string   `json:"id"`
	Packages    []string `json:"packages"`
	Stdlib      []string `json:"stdlib"`
	Assumptions []string `json:"assumptions"`
	NotCovered  []string `json:"not_covered"`
	MinObls     int      `json:"min_obligations"`
	MinFuncs    int      `json:"min_functions"`
	TimeoutS    int      `json:"timeout_s"` // per-obligation solver limit of the quick tier (default 10)
	Replay      map[string]string `json:"replay"` // function key -> replay template name
}

type KnownFinding struct {
	Property   string `json:"property"`
	Function   string `json:"function"`   // short function key
	Obligation string `json:"obligation"` // obligation name
	Excluding  string `json:"excluding"`  // spec expression over the function's parameters
	What       string `json:"what"`
	Fixed      string `json:"fixed,omitempty"`
}

func loadKnownFindings(path string) ([]*KnownFinding, error) {
	f, err := os.Open(path)
	if err != nil {
		if os.IsNotExist(err) {
			return nil, nil
		}
		return nil, err
	}
	defer f.Close()
	var out []*KnownFinding
	sc := bufio.NewScanner(f)
	sc.Buffer(make([]byte, 1<<20), 1<<20)
	for sc.Scan() {
		l := strings.TrimSpace(sc.Text())
		if l == "" || strings.HasPrefix(l, "#") || strings.HasPrefix(l, "fixed:") {
			continue
		}
		var k KnownFinding
		if err := json.Unmarshal([]byte(l), &k); err != nil {
			return nil, fmt.Errorf("%s: %v", path, err)
		}
		if k.Fixed != "" {
			continue
		}
		out = append(out, &k)
	}
	return out, nil
}

func main() {
	if len(os.Args) < 2 {
		fmt.Fprintln(os.Stderr, "usage: govc check|dump ...")
		os.Exit(2)
	}
	switch os.Args[1] {
	case "check":
		os.Exit(cmdCheck(os.Args[2:]))
	case "replay":
		os.Exit(cmdReplay(os.Args[2:]))
	default:
		fmt.Fprintln(os.Stderr, "unknown command")
		os.Exit(2)
	}
}

func cmdCheck(args []string) int {
	fs := flag.NewFlagSet("check", flag.ExitOnError)
	propFile := fs.String("prop", "", "property spec file (props/Cnn.json)")
	repo := fs.String("repo", "/repo", "repository root")
	verif := fs.String("verif", "/verif", "verif root")
	tier := fs.String("tier", "quick", "quick|thorough")
	verbose := fs.Bool("v", false, "verbose")
	only := fs.String("only", "", "only verify functions whose key contains this substring")
	keep := fs.Bool("keep", false, "keep all query files")
	fs.Parse(args)
	t0 := time.Now()
	seed := 0
	if s := os.Getenv("VERIF_SEED"); s != "" {
		seed, _ = strconv.Atoi(s)
	}
	if t := os.Getenv("VERIF_TIER"); t == "quick" || t == "thorough" {
		*tier = t
	}
	var ps PropSpec
	data, err := os.ReadFile(*propFile)
	if err != nil {
		fmt.Fprintln(os.Stderr, "govc:", err)
		return 2
	}
	if err := json.Unmarshal(data, &ps); err != nil {
		fmt.Fprintln(os.Stderr, "govc:", err)
		return 2
	}
	eng := newEngine(*repo)
	eng.verbose = *verbose
	if err := eng.load(ps.Packages); err != nil {
		fmt.Fprintln(os.Stderr, "govc: load:", err)
		return 2
	}
	tLoad := time.Since(t0)
	var std []string
	for _, s := range ps.Stdlib {
		std = append(std, filepath.Join(*verif, s))
	}
	if err := eng.loadContracts(std); err != nil {
		fmt.Fprintln(os.Stderr, "govc: cannot decide: contracts:", err)
		return 2
	}
	kfs, err := loadKnownFindings(filepath.Join(*verif, "known_findings.jsonl"))
	if err != nil {
		fmt.Fprintln(os.Stderr, "govc:", err)
		return 2
	}
	eng.knownFindings = kfs

	hasProp := func(ps2 []string) bool {
		for _, p := range ps2 {
			if p == ps.ID {
				return true
			}
		}
		return false
	}
	var keys []string
	for k, c := range eng.contracts {
		if hasProp(c.Props) && !c.Trusted && !c.Extern {
			if *only != "" && !strings.Contains(k, *only) {
				continue
			}
			keys = append(keys, k)
		}
	}
	sort.Strings(keys)
	var vcs []*VC
	var failedVC []string
	for _, k := range keys {
		vc := eng.verifyFunc(eng.contracts[k])
		if vc.failed != nil {
			failedVC = append(failedVC, vc.failed.Error())
		}
		vcs = append(vcs, vc)
	}
	nLemmas := 0
	for _, l := range eng.lemmas {
		if hasProp(l.Props) {
			if *only != "" && !strings.Contains(l.Name, *only) {
				continue
			}
			vc := eng.verifyLemma(l, false)
			if vc.failed != nil {
				failedVC = append(failedVC, vc.failed.Error())
			}
			vcs = append(vcs, vc)
			nLemmas++
		}
	}
	for _, b := range eng.bindings {
		if hasProp(b.Props) {
			if *only != "" && !strings.Contains(b.Pred, *only) {
				continue
			}
			vc := eng.verifyBinding(b)
			if vc.failed != nil {
				failedVC = append(failedVC, vc.failed.Error())
			}
			vcs = append(vcs, vc)
			nLemmas++
		}
	}
	if len(failedVC) > 0 {
		for _, f := range failedVC {
			fmt.Fprintln(os.Stderr, "govc: cannot decide:", f)
		}
		return 2
	}
	var obls []*Obligation
	for _, vc := range vcs {
		obls = append(obls, vc.obls...)
	}
	tGen := time.Since(t0) - tLoad
	outDir := filepath.Join(*verif, "out", ps.ID)
	os.RemoveAll(outDir)
	timeout := 20
	if ps.TimeoutS > 0 {
		timeout = ps.TimeoutS
	}
	for _, vc := range vcs {
		if len(vc.stale) > 0 && timeout < 60 {
			// the bounded fallback after a loop was rewritten only reports what a solver refutes with a model:
			// give the solvers time to find it (this path is never taken on the unchanged tree)
			timeout = 60
		}
	}
	workers := 8
	if *tier == "thorough" {
		timeout = 120
	}
	tS := time.Now()
	solveAll(obls, outDir, timeout, workers, *tier == "thorough")
	tSolve := time.Since(tS)

	rep := buildReport(eng, &ps, vcs, obls, keys, nLemmas, *tier, seed, *verif)
	rep.Evidence.Coverage["load_s"] = round1(tLoad.Seconds())
	rep.Evidence.Coverage["vcgen_s"] = round1(tGen.Seconds())
	rep.Evidence.Coverage["solver_wall_s"] = round1(tSolve.Seconds())
	rep.Evidence.WallS = round1(time.Since(t0).Seconds())
	if err := rep.write(*verif, ps.ID); err != nil {
		fmt.Fprintln(os.Stderr, "govc:", err)
		return 2
	}
	if !*keep {
		// keep only the queries of failed obligations
		for _, o := range obls {
			if o.Result != nil && o.Result.Status == "unsat" && !o.Cover {
				os.Remove(o.Result.File)
				os.Remove(strings.TrimSuffix(o.Result.File, ".smt2") + ".cvc5.smt2")
			}
		}
	}
	return rep.finish()
}

func round1(f float64) float64 { return float64(int(f*10+0.5)) / 10 }
