package main

// Built-in (trusted) models of standard-library functions. Every model that is used is listed in the
// evidence file under trusted_base.

import (
	"fmt"
	"go/types"
	"strings"
)

func fullName(f *types.Func) string {
	sig := f.Type().(*types.Signature)
	pkg := ""
	if f.Pkg() != nil {
		pkg = f.Pkg().Path()
	}
	if r := sig.Recv(); r != nil {
		t := r.Type()
		if p, ok := t.(*types.Pointer); ok {
			t = p.Elem()
		}
		if n, ok := t.(*types.Named); ok {
			return pkg + "." + n.Obj().Name() + "." + f.Name()
		}
	}
	return pkg + "." + f.Name()
}

var pureNoops = map[string]bool{
	"sync.Mutex.Lock": true, "sync.Mutex.Unlock": true, "sync.RWMutex.Lock": true, "sync.RWMutex.Unlock": true,
	"sync.RWMutex.RLock": true, "sync.RWMutex.RUnlock": true, "sync.WaitGroup.Add": true, "sync.WaitGroup.Done": true,
	"sync.Mutex.TryLock": false,
}

func isKnownPure(f *types.Func) bool {
	n := fullName(f)
	if pureNoops[n] {
		return true
	}
	switch n {
	case "errors.New", "fmt.Errorf", "fmt.Sprintf", "fmt.Sprint", "fmt.Sprintln", "bytes.Equal", "bytes.Compare", "time.Now", "time.Time.UnixNano",
		"time.Time.Unix", "math/big.NewInt", "strings.HasPrefix", "strings.ToLower", "strings.ToUpper", "strconv.Itoa", "strconv.FormatUint",
		"strconv.FormatInt", "bytes.HasPrefix", "time.Since", "time.Time.Sub", "time.Time.Before", "time.Time.After", "time.Duration.Seconds",
		"errors.Is", "time.Unix", "strings.Contains", "strings.TrimSpace", "fmt.Println", "fmt.Printf", "fmt.Print", "strconv.Quote",
		"encoding/json.Unmarshal", "encoding/json.Marshal":
		return true
	}
	if strings.HasPrefix(n, "math/big.Int.") {
		return true
	}
	if strings.HasPrefix(n, "encoding/binary.littleEndian.") || strings.HasPrefix(n, "encoding/binary.bigEndian.") {
		return true
	}
	return false
}

// knownPure applies a built-in model; ok=false when there is none.
func (fr *Frame) knownPure(s *State, f *types.Func, recv *Val, args []*Val) ([]*Val, bool) {
	n := fullName(f)
	if !isKnownPure(f) {
		return nil, false
	}
	fr.eng.trustedUsed["model:"+n] = true
	sig := f.Type().(*types.Signature)
	if pureNoops[n] {
		fr.eng.dropped["lock"]++
		return nil, true
	}
	bigH := func() string { return s.heap("H:big", "(Array Int Int)") }
	bv := func(p *Val) string { return fmt.Sprintf("(select %s %s)", bigH(), p.S) }
	setBig := func(p *Val, val string) {
		fr.vc.oblige(s, "nil", not(eq(p.S, "0")), 0, "nil *big.Int receiver in "+n)
		s.setHeap("H:big", "(Array Int Int)", fmt.Sprintf("(store %s %s %s)", bigH(), p.S, val))
	}
	nonNil := func(p *Val, what string) {
		fr.vc.oblige(s, "nil", not(eq(p.S, "0")), 0, "nil *big.Int "+what+" in "+n)
	}
	switch n {
	case "errors.New", "fmt.Errorf":
		for _, a := range args {
			_ = a
		}
		v := fr.freshVal(s, sig.Results().At(0).Type(), "err")
		s.assume(not(eq(v.S, "0")))
		// a newly created error value is different from every package-level sentinel (those have errid > 0)
		if _, declared := fr.eng.syms.syms["errid"]; !declared {
			fr.eng.syms.add("errid", "(declare-fun errid (Int) Int)")
		}
		s.assume(fmt.Sprintf("(< (errid %s) 0)", v.S))
		return []*Val{v}, true
	case "fmt.Sprintf", "fmt.Sprint", "fmt.Sprintln", "strings.ToLower", "strings.ToUpper", "strconv.Itoa", "strconv.FormatUint", "strconv.FormatInt",
		"strings.TrimSpace", "strconv.Quote":
		return []*Val{fr.freshVal(s, sig.Results().At(0).Type(), "str")}, true
	case "fmt.Println", "fmt.Printf", "fmt.Print":
		return fr.freshResults(s, sig.Results()), true
	case "bytes.Equal":
		return []*Val{{T: boolT, S: eq(args[0].S, args[1].S)}}, true
	case "bytes.Compare":
		v := &Val{T: intT, S: fr.vc.define("cmp", "Int", fmt.Sprintf("(bcmp %s %s)", args[0].S, args[1].S))}
		s.assume(fmt.Sprintf("(and (<= (- 1) %s) (<= %s 1) (= (= %s 0) (= %s %s)))", v.S, v.S, v.S, args[0].S, args[1].S))
		return []*Val{v}, true
	case "bytes.HasPrefix", "strings.HasPrefix":
		return []*Val{{T: boolT, S: fmt.Sprintf("(seq.prefixof %s %s)", args[1].S, args[0].S)}}, true
	case "strings.Contains":
		return []*Val{{T: boolT, S: fmt.Sprintf("(seq.contains %s %s)", args[0].S, args[1].S)}}, true
	case "time.Now", "time.Unix", "time.Time.UnixNano", "time.Time.Unix", "time.Since", "time.Time.Sub", "time.Time.Before", "time.Time.After", "time.Duration.Seconds", "errors.Is":
		fr.eng.dropped["time/opaque"]++
		return fr.freshResults(s, sig.Results()), true
	case "encoding/json.Marshal":
		res := fr.freshResults(s, sig.Results())
		return res, true
	case "encoding/json.Unmarshal":
		// the pointee of the second argument is overwritten with an arbitrary well-typed value
		// Decoding is a deterministic function of the input bytes: the decoded value is json_<T>(data), the
		// error json_err_<T>(data). Slices inside the decoded value denote some existing backing array whose
		// content is arbitrary (two decodings of the same bytes see the same content while the heap is unchanged).
		if args[1].Dyn != nil {
			args[1] = args[1].Dyn
		}
		if pt, ok := args[1].T.Underlying().(*types.Pointer); ok {
			hn, hs := fr.eng.ptrHeap(pt.Elem())
			dec, errf := fr.eng.jsonFuncs(pt.Elem())
			nv := &Val{T: pt.Elem(), S: fr.vc.define("json", fr.eng.sortOf(pt.Elem()), fmt.Sprintf("(%s %s)", dec, args[0].S))}
			s.assume(fr.eng.typeFact(nv, s.next))
			fr.nilCheck(s, args[1], 0)
			s.setHeap(hn, hs, fmt.Sprintf("(store %s %s %s)", s.heap(hn, hs), args[1].S, nv.S))
			ev := &Val{T: sig.Results().At(0).Type(), S: fr.vc.define("jsonerr", "Int", fmt.Sprintf("(%s %s)", errf, args[0].S))}
			s.assume(fr.eng.typeFact(ev, s.next))
			return []*Val{ev}, true
		}
		fr.havocEverything(s)
		return fr.freshResults(s, sig.Results()), true
	case "math/big.NewInt":
		ref := s.alloc()
		s.setHeap("H:big", "(Array Int Int)", fmt.Sprintf("(store %s %s %s)", bigH(), ref, args[0].S))
		return []*Val{{T: sig.Results().At(0).Type(), S: ref}}, true
	}
	if strings.HasPrefix(n, "math/big.Int.") {
		m := strings.TrimPrefix(n, "math/big.Int.")
		switch m {
		case "Add", "Sub", "Mul":
			op := map[string]string{"Add": "+", "Sub": "-", "Mul": "*"}[m]
			nonNil(args[0], "operand")
			nonNil(args[1], "operand")
			setBig(recv, fmt.Sprintf("(%s %s %s)", op, bv(args[0]), bv(args[1])))
			return []*Val{recv}, true
		case "Div", "Quo", "Mod", "Rem":
			nonNil(args[0], "operand")
			nonNil(args[1], "operand")
			fr.vc.oblige(s, "div", not(eq(bv(args[1]), "0")), 0, "big.Int division by zero")
			var t string
			switch m {
			case "Div":
				t = fmt.Sprintf("(div %s %s)", bv(args[0]), bv(args[1]))
			case "Mod":
				t = fmt.Sprintf("(mod %s %s)", bv(args[0]), bv(args[1]))
			case "Quo":
				t = fmt.Sprintf("(tdiv %s %s)", bv(args[0]), bv(args[1]))
			case "Rem":
				t = fmt.Sprintf("(tmod %s %s)", bv(args[0]), bv(args[1]))
			}
			setBig(recv, t)
			return []*Val{recv}, true
		case "Set":
			nonNil(args[0], "operand")
			setBig(recv, bv(args[0]))
			return []*Val{recv}, true
		case "Neg":
			nonNil(args[0], "operand")
			setBig(recv, "(- "+bv(args[0])+")")
			return []*Val{recv}, true
		case "Abs":
			nonNil(args[0], "operand")
			setBig(recv, "(abs "+bv(args[0])+")")
			return []*Val{recv}, true
		case "SetUint64", "SetInt64":
			setBig(recv, args[0].S)
			return []*Val{recv}, true
		case "SetBytes":
			setBig(recv, "(bytes2nat "+args[0].S+")")
			return []*Val{recv}, true
		case "Bytes":
			nonNil(recv, "receiver")
			return []*Val{{T: sig.Results().At(0).Type(), S: fr.vc.define("bigbytes", "(Seq Int)", "(nat2bytes (abs "+bv(recv)+"))")}}, true
		case "Cmp":
			nonNil(recv, "receiver")
			nonNil(args[0], "operand")
			a, b := bv(recv), bv(args[0])
			return []*Val{{T: intT, S: fr.vc.define("cmp", "Int", fmt.Sprintf("(ite (< %s %s) (- 1) (ite (> %s %s) 1 0))", a, b, a, b))}}, true
		case "Sign":
			nonNil(recv, "receiver")
			a := bv(recv)
			return []*Val{{T: intT, S: fr.vc.define("sign", "Int", fmt.Sprintf("(ite (< %s 0) (- 1) (ite (> %s 0) 1 0))", a, a))}}, true
		case "IsUint64":
			nonNil(recv, "receiver")
			a := bv(recv)
			return []*Val{{T: boolT, S: fmt.Sprintf("(and (<= 0 %s) (<= %s 18446744073709551615))", a, a)}}, true
		case "Uint64":
			nonNil(recv, "receiver")
			a := bv(recv)
			v := fr.freshVal(s, types.Typ[types.Uint64], "u64")
			s.assume(fmt.Sprintf("(=> (and (<= 0 %s) (<= %s 18446744073709551615)) (= %s %s))", a, a, v.S, a))
			return []*Val{v}, true
		case "SetString":
			ok := fr.vc.declare("ok", "Bool")
			nv := fr.vc.declare("parsed", "Int")
			fr.vc.oblige(s, "nil", not(eq(recv.S, "0")), 0, "nil *big.Int receiver in "+n)
			s.setHeap("H:big", "(Array Int Int)", fmt.Sprintf("(store %s %s %s)", bigH(), recv.S, nv))
			res := &Val{T: sig.Results().At(0).Type(), S: ite(ok, recv.S, "0")}
			return []*Val{res, {T: boolT, S: ok}}, true
		case "String", "Text":
			return []*Val{fr.freshVal(s, types.Typ[types.String], "bigstr")}, true
		case "BitLen":
			v := fr.freshVal(s, intT, "bitlen")
			s.assume("(>= " + v.S + " 0)")
			return []*Val{v}, true
		}
		// unknown big.Int method: havoc the receiver's value
		if recv != nil {
			s.setHeap("H:big", "(Array Int Int)", fmt.Sprintf("(store %s %s %s)", bigH(), recv.S, fr.vc.declare("bigv", "Int")))
		}
		return fr.freshResults(s, sig.Results()), true
	}
	if strings.HasPrefix(n, "encoding/binary.") {
		le := strings.Contains(n, "littleEndian")
		m := n[strings.LastIndex(n, ".")+1:]
		width := 0
		switch {
		case strings.HasSuffix(m, "16"):
			width = 2
		case strings.HasSuffix(m, "32"):
			width = 4
		case strings.HasSuffix(m, "64"):
			width = 8
		}
		if width == 0 {
			return fr.freshResults(s, sig.Results()), true
		}
		fn := fmt.Sprintf("dec_%s%d", map[bool]string{true: "le", false: "be"}[le], width)
		en := fmt.Sprintf("enc_%s%d", map[bool]string{true: "le", false: "be"}[le], width)
		fr.eng.codecSyms(fn, en, width)
		if strings.HasPrefix(m, "Uint") {
			fr.vc.oblige(s, "idx", fmt.Sprintf("(>= (seq.len %s) %d)", args[0].S, width), 0, n+": buffer too short")
			v := &Val{T: sig.Results().At(0).Type(), S: fr.vc.define("dec", "Int", fmt.Sprintf("(%s (seq.extract %s 0 %d))", fn, args[0].S, width))}
			s.assume(fr.eng.typeFact(v, ""))
			return []*Val{v}, true
		}
		if strings.HasPrefix(m, "PutUint") {
			fr.vc.oblige(s, "idx", fmt.Sprintf("(>= (seq.len %s) %d)", args[0].S, width), 0, n+": buffer too short")
			// the write is performed by the caller-side helper (needs the lvalue); handled in evalCall via putUint
			return nil, true
		}
		if strings.HasPrefix(m, "AppendUint") {
			return []*Val{{T: sig.Results().At(0).Type(), S: fr.vc.define("app", "(Seq Int)", fmt.Sprintf("(seq.++ %s (%s %s))", args[0].S, en, args[1].S))}}, true
		}
		return fr.freshResults(s, sig.Results()), true
	}
	return nil, false
}

// codecSyms declares the fixed-width integer codecs with their inverse axioms.
func (e *Engine) codecSyms(dec, enc string, width int) {
	if _, ok := e.syms.syms[dec]; ok {
		return
	}
	max := pow2(8 * width)
	e.syms.add(enc, fmt.Sprintf("(declare-fun %s (Int) (Seq Int))", enc))
	e.syms.add(dec, fmt.Sprintf(`(declare-fun %s ((Seq Int)) Int)
(assert (forall ((x Int)) (! (=> (and (<= 0 x) (< x %s)) (and (= (seq.len (%s x)) %d) (= (%s (%s x)) x))) :pattern ((%s x)))))
(assert (forall ((b (Seq Int))) (! (and (<= 0 (%s b)) (< (%s b) %s)) :pattern ((%s b)))))`,
		dec, max, enc, width, dec, enc, enc, dec, dec, max, dec))
	e.syms.syms[dec].Deps = append(e.syms.syms[dec].Deps, enc)
	e.syms.syms[enc].Deps = append(e.syms.syms[enc].Deps, dec)
}
