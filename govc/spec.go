package main

// Contract language: parsing of //@ comment files and of specification expressions.

import (
	"bufio"
	"fmt"
	"go/ast"
	"go/parser"
	"os"
	"regexp"
	"strconv"
	"strings"
)

// SpecExpr is a parsed specification expression.
type SpecExpr interface{}

type SGo struct {
	E    ast.Expr
	Subs map[string]SpecExpr
	Src  string
}
type SImplies struct{ A, B SpecExpr }
type SIff struct{ A, B SpecExpr }
type Binder struct {
	Name string
	Type string // Go type expression text
}
type SQuant struct {
	Forall bool
	Vars   []Binder
	Body   SpecExpr
	Pats   []SpecExpr // optional triggers
}

type Clause struct {
	Text string
	E    SpecExpr
	Line int
}

type LoopSpec struct {
	StepHints  []*Clause // proved at every `continue` and at the normal end of the body (in that state), then available to inv-step
	BreakHints []*Clause // proved at every break out of the loop (in that state, loop-body locals visible) and assumed from there on
	EntryHints []*Clause // proved when the loop is reached and then available to the invariant-on-entry obligations only
	Invariants []*Clause
	Decreases  *Clause
}

type Contract struct {
	Key      string // pkgpath.Recv.Name or pkgpath.Name
	Pkg      string // package path the contract file lives in (scope for names)
	RecvName string // receiver type name ("" for functions), without *
	Name     string
	Props    []string
	Requires []*Clause
	Ensures  []*Clause
	Assigns  []string // designators; nil + !HasAssigns => unknown frame
	HasFrame bool
	Pure     bool
	Wrapping bool
	// Prune: branches whose path condition is refuted by a solver (2 s) are not explored; used for functions whose
	// precondition makes most of the body dead (and that body is outside the translatable subset, e.g. cgo calls)
	Prune bool
	Trusted  bool
	NoPanic  bool // trusted: assume callee does not panic (always for contracts)
	Inline   bool
	Lets     []struct {
		Name string
		C    *Clause
	}
	Loops    map[int]*LoopSpec
	File     string
	Line     int
	Extern   bool     // contract for a function outside the verified packages
	Params   []string // for extern: parameter names
	Results  []string // for extern: result names
	Asserts  map[string]*Clause
	Bounded  int
	GhostPuts []GhostPut // `ghostput <map> <object>, <key>, <value>`: the call sets key to value in the object's ghost map
	GhostAdds []GhostAdd // `ghostadd <set> <object expr> <element expr>`: the call adds the element to the object's ghost set
	NoSafety bool    // `nosafety`: panic-freedom / overflow obligations of this function are assumed, not claimed
	NoAlloc  bool    // the callee allocates nothing the caller can observe (results point to existing objects)
	// Defines: the Function expression is an application of an uninterpreted symbol that is *defined* as this
	// function's result (no obligation; assumes the function is a deterministic function of the listed arguments)
	Defines  bool
	Function *Clause // `function <expr>`: the (single) result is exactly this expression of the arguments and the heap
	AllocBound *Clause // every make([]T, n) reached from the function satisfies n <= AllocBound
	Used     bool
	Opaque   []string
	Excluding []*Clause // known-finding exclusions applied to specific obligations: "oblname := expr"
}

// GhostAdd: effect clause of a (trusted) contract on a named ghost set attached to an object.
type GhostAdd struct {
	Set  string
	Obj  *Clause
	Elem *Clause
}

// GhostPut: effect clause of a (trusted) contract on a named ghost map (byte-string keys and values) of an object.
type GhostPut struct {
	Map           string
	Obj, Key, Val *Clause
}

type Pred struct {
	Name   string
	Pkg    string
	Params []Binder
	Body   *Clause
	File   string
}

type Lemma struct {
	Name     string
	Pkg      string
	Params   []Binder
	Props    []string
	Requires []*Clause
	Ensures  []*Clause
	File     string
	Line     int
	// Uses: applications `name(args)` of this lemma (the induction hypothesis, under its Decreases measure) or
	// of a lemma declared earlier in the same package, assumed as requires ==> ensures
	Uses      []*Clause
	Decreases *Clause
}

var quantRe = regexp.MustCompile(`^(forall|exists)\s+`)

// splitTop splits s at top-level occurrences of sep (outside (), [], {} and string literals).
func splitTop(s, sep string) []string {
	var out []string
	d := 0
	last := 0
	inStr := byte(0)
	for i := 0; i < len(s); i++ {
		c := s[i]
		if inStr != 0 {
			if c == '\\' {
				i++
			} else if c == inStr {
				inStr = 0
			}
			continue
		}
		switch c {
		case '"', '\'', '`':
			inStr = c
		case '(', '[', '{':
			d++
		case ')', ']', '}':
			d--
		default:
			if d == 0 && strings.HasPrefix(s[i:], sep) {
				// make sure "==>" is not part of "<==>"
				if sep == "==>" && i > 0 && s[i-1] == '<' {
					continue
				}
				out = append(out, s[last:i])
				last = i + len(sep)
				i += len(sep) - 1
			}
		}
	}
	out = append(out, s[last:])
	return out
}

func parseBinders(s string) ([]Binder, error) {
	// "i, j int, k uint64"
	var out []Binder
	parts := splitTop(s, ",")
	var pending []string
	for _, p := range parts {
		p = strings.TrimSpace(p)
		if p == "" {
			continue
		}
		fs := strings.Fields(p)
		if len(fs) == 1 {
			pending = append(pending, fs[0])
			continue
		}
		ty := strings.Join(fs[1:], " ")
		for _, n := range pending {
			out = append(out, Binder{n, ty})
		}
		pending = nil
		out = append(out, Binder{fs[0], ty})
	}
	if len(pending) > 0 {
		return nil, fmt.Errorf("binders without type: %v", pending)
	}
	return out, nil
}

func parseSpec(s string) (SpecExpr, error) {
	s = strings.TrimSpace(s)
	if s == "" {
		return nil, fmt.Errorf("empty spec expression")
	}
	if m := quantRe.FindString(s); m != "" {
		rest := s[len(m):]
		parts := splitTop(rest, "::")
		if len(parts) < 2 {
			return nil, fmt.Errorf("quantifier without '::' in %q", s)
		}
		bs, err := parseBinders(parts[0])
		if err != nil {
			return nil, err
		}
		bodyTxt := strings.Join(parts[1:], "::")
		q := &SQuant{Forall: strings.HasPrefix(m, "forall"), Vars: bs}
		// optional triggers: {pat1, pat2} prefix
		bt := strings.TrimSpace(bodyTxt)
		if strings.HasPrefix(bt, "{") {
			end := matchClose(bt, 0)
			if end > 0 {
				for _, p := range splitTop(bt[1:end], ",") {
					pe, err := parseSpec(p)
					if err != nil {
						return nil, err
					}
					q.Pats = append(q.Pats, pe)
				}
				bt = bt[end+1:]
			}
		}
		body, err := parseSpec(bt)
		if err != nil {
			return nil, err
		}
		q.Body = body
		return q, nil
	}
	if ps := splitTop(s, "<==>"); len(ps) > 1 {
		if len(ps) != 2 {
			return nil, fmt.Errorf("chained <==> in %q", s)
		}
		a, err := parseSpec(ps[0])
		if err != nil {
			return nil, err
		}
		b, err := parseSpec(ps[1])
		if err != nil {
			return nil, err
		}
		return &SIff{a, b}, nil
	}
	if ps := splitTop(s, "==>"); len(ps) > 1 {
		// right associative
		a, err := parseSpec(ps[0])
		if err != nil {
			return nil, err
		}
		b, err := parseSpec(strings.Join(ps[1:], "==>"))
		if err != nil {
			return nil, err
		}
		return &SImplies{a, b}, nil
	}
	// nested groups containing spec-only syntax are replaced by placeholders
	subs := map[string]SpecExpr{}
	var b strings.Builder
	for i := 0; i < len(s); i++ {
		c := s[i]
		if c == '"' || c == '`' || c == '\'' {
			j := i + 1
			for j < len(s) && s[j] != c {
				if s[j] == '\\' {
					j++
				}
				j++
			}
			if j >= len(s) {
				return nil, fmt.Errorf("unterminated literal in %q", s)
			}
			b.WriteString(s[i : j+1])
			i = j
			continue
		}
		if c == '(' {
			end := matchClose(s, i)
			if end < 0 {
				return nil, fmt.Errorf("unbalanced parens in %q", s)
			}
			inner := s[i+1 : end]
			if needsSpecParse(inner) {
				// Is this a call argument list? then handle each argument separately.
				isCall := i > 0 && (isIdentChar(s[i-1]) || s[i-1] == ')' || s[i-1] == ']')
				if isCall {
					args := splitTop(inner, ",")
					b.WriteByte('(')
					for k, a := range args {
						if k > 0 {
							b.WriteByte(',')
						}
						if needsSpecParse(a) {
							sub, err := parseSpec(a)
							if err != nil {
								return nil, err
							}
							name := fmt.Sprintf("__sub%d", len(subs))
							subs[name] = sub
							b.WriteString(name)
						} else {
							b.WriteString(a)
						}
					}
					b.WriteByte(')')
				} else {
					sub, err := parseSpec(inner)
					if err != nil {
						return nil, err
					}
					name := fmt.Sprintf("__sub%d", len(subs))
					subs[name] = sub
					b.WriteString(name)
				}
				i = end
				continue
			}
			b.WriteString(s[i : end+1])
			i = end
			continue
		}
		b.WriteByte(c)
	}
	txt := b.String()
	e, err := parser.ParseExpr(txt)
	if err != nil {
		return nil, fmt.Errorf("cannot parse spec expression %q: %v", s, err)
	}
	return &SGo{E: e, Subs: subs, Src: s}, nil
}

func isIdentChar(c byte) bool {
	return c == '_' || (c >= 'a' && c <= 'z') || (c >= 'A' && c <= 'Z') || (c >= '0' && c <= '9')
}

func needsSpecParse(s string) bool {
	if strings.Contains(s, "==>") {
		return true
	}
	if strings.Contains(s, "forall ") || strings.Contains(s, "exists ") {
		return true
	}
	return false
}

func matchClose(s string, i int) int {
	open := s[i]
	var cl byte
	switch open {
	case '(':
		cl = ')'
	case '[':
		cl = ']'
	case '{':
		cl = '}'
	}
	d := 0
	for j := i; j < len(s); j++ {
		c := s[j]
		if c == '"' || c == '`' || c == '\'' {
			k := j + 1
			for k < len(s) && s[k] != c {
				if s[k] == '\\' {
					k++
				}
				k++
			}
			j = k
			continue
		}
		if c == open {
			d++
		} else if c == cl {
			d--
			if d == 0 {
				return j
			}
		}
	}
	return -1
}

// ---------------------------------------------------------------------------
// contract file parsing

type GlobalInv struct {
	Pkg string
	C   *Clause
	File string
}

// Binding: for a struct type T and a definition d(T) []byte, every field of T (minus `except`) is bound by d.
type Binding struct {
	Pred   string
	Type   string
	Pkg    string
	Props  []string
	Except []string
	File   string
	Line   int
}

type ContractFile struct {
	Bindings   []*Binding
	GlobalInvs []*GlobalInv
	FieldFuncs map[string]string
	Contracts []*Contract
	Preds     []*Pred
	Lemmas    []*Lemma
	Axioms    []*Lemma
}

var funcHdrRe = regexp.MustCompile(`^(extern\s+)?func\s+(?:\(\s*\*?\s*([A-Za-z0-9_./-]+)\s*\)\s*)?([A-Za-z0-9_./-]+)\s*(\(.*)?$`)
var predHdrRe = regexp.MustCompile(`^pred\s+([A-Za-z0-9_]+)\s*\((.*?)\)\s*:=\s*(.*)$`)
var lemmaHdrRe = regexp.MustCompile(`^(lemma|axiom)\s+([A-Za-z0-9_]+)\s*\((.*)\)\s*$`)
var bindingRe = regexp.MustCompile(`^binding\s+([A-Za-z0-9_]+)\s*\(\s*([A-Za-z0-9_.]+)\s*\)\s*$`)
var loopRe = regexp.MustCompile(`^loop\s+([0-9]+)\s*:\s*(invariant|decreases|entry-hint|break-hint|step-hint)\s+(.*)$`)

var clauseKeywords = map[string]bool{"func": true, "extern": true, "pred": true, "lemma": true, "axiom": true, "requires": true, "ensures": true,
	"assigns": true, "pure": true, "wrapping": true, "prune": true, "trusted": true, "inline": true, "props": true, "loop": true, "let": true,
	"induct": true, "uses": true, "bounded": true, "excluding": true, "global-inv": true, "binding": true, "except": true, "allocbound": true, "function": true, "noalloc": true, "ghostadd": true, "nosafety": true, "ghostput": true, "fieldfunc": true, "defines": true, "decreases": true}

func parseContractFile(path string, pkgPath string) (*ContractFile, error) {
	f, err := os.Open(path)
	if err != nil {
		return nil, err
	}
	defer f.Close()
	cf := &ContractFile{}
	sc := bufio.NewScanner(f)
	sc.Buffer(make([]byte, 1<<20), 1<<20)
	type rawLine struct {
		text string
		line int
	}
	var lines []rawLine
	ln := 0
	for sc.Scan() {
		ln++
		t := strings.TrimSpace(sc.Text())
		if !strings.HasPrefix(t, "//@") {
			continue
		}
		t = strings.TrimSpace(t[3:])
		if t == "" || strings.HasPrefix(t, "#") {
			continue
		}
		// strip trailing comment " // ..."
		if i := strings.Index(t, " // "); i >= 0 {
			t = strings.TrimSpace(t[:i])
		}
		first := strings.Fields(t)[0]
		first = strings.TrimSuffix(first, ":")
		if !clauseKeywords[first] && len(lines) > 0 {
			// continuation
			lines[len(lines)-1].text += " " + t
			continue
		}
		lines = append(lines, rawLine{t, ln})
	}
	var cur *Contract
	var curLemma *Lemma
	var curBinding *Binding
	mk := func(text string, line int) (*Clause, error) {
		e, err := parseSpec(text)
		if err != nil {
			return nil, fmt.Errorf("%s:%d: %v", path, line, err)
		}
		return &Clause{Text: text, E: e, Line: line}, nil
	}
	for _, rl := range lines {
		t := rl.text
		kw := strings.Fields(t)[0]
		rest := strings.TrimSpace(t[len(kw):])
		switch {
		case kw == "func" || kw == "extern":
			m := funcHdrRe.FindStringSubmatch(t)
			if m == nil {
				return nil, fmt.Errorf("%s:%d: bad func header %q", path, rl.line, t)
			}
			cur = &Contract{Pkg: pkgPath, RecvName: m[2], Name: m[3], File: path, Line: rl.line, Loops: map[int]*LoopSpec{}, Extern: m[1] != ""}
			if cur.Extern {
				// name is pkg.Func or receiver is pkg.Type
				if sig := strings.TrimSpace(m[4]); sig != "" {
					if err := parseExternSig(cur, sig); err != nil {
						return nil, fmt.Errorf("%s:%d: %v", path, rl.line, err)
					}
				}
			}
			curLemma = nil
			curBinding = nil
			cf.Contracts = append(cf.Contracts, cur)
		case kw == "pred":
			m := predHdrRe.FindStringSubmatch(t)
			if m == nil {
				return nil, fmt.Errorf("%s:%d: bad pred header %q", path, rl.line, t)
			}
			bs, err := parseBinders(m[2])
			if err != nil {
				return nil, fmt.Errorf("%s:%d: %v", path, rl.line, err)
			}
			c, err := mk(m[3], rl.line)
			if err != nil {
				return nil, err
			}
			cf.Preds = append(cf.Preds, &Pred{Name: m[1], Pkg: pkgPath, Params: bs, Body: c, File: path})
			cur, curLemma, curBinding = nil, nil, nil
		case kw == "binding":
			m := bindingRe.FindStringSubmatch(t)
			if m == nil {
				return nil, fmt.Errorf("%s:%d: bad binding header %q", path, rl.line, t)
			}
			curBinding = &Binding{Pred: m[1], Type: m[2], Pkg: pkgPath, File: path, Line: rl.line}
			cf.Bindings = append(cf.Bindings, curBinding)
			cur, curLemma = nil, nil
		case kw == "except" && curBinding != nil:
			curBinding.Except = append(curBinding.Except, strings.Fields(rest)...)
		case kw == "props" && curBinding != nil && cur == nil && curLemma == nil:
			curBinding.Props = strings.Fields(rest)
		case kw == "fieldfunc":
			// fieldfunc <Type>.<field> hashconcat : calls through this func-typed field are modelled as
			// hash32 of the concatenation of their byte-slice arguments (an assumption about the value stored there).
			// fieldfunc <Type>.<field> assigns <type-level designators>: calls through the field are assumed to
			// modify nothing but the named heaps (heap(T), elems(T), mapof(T), big, ghost(...), ghostmap(...), nothing)
			fs := strings.Fields(rest)
			if len(fs) < 2 || (fs[1] != "hashconcat" && fs[1] != "assigns") || !strings.Contains(fs[0], ".") {
				return nil, fmt.Errorf("%s:%d: bad fieldfunc %q", path, rl.line, rest)
			}
			if cf.FieldFuncs == nil {
				cf.FieldFuncs = map[string]string{}
			}
			cf.FieldFuncs[pkgPath+"."+fs[0]] = strings.TrimSpace(strings.TrimPrefix(strings.TrimSpace(rest), fs[0]))
			cur, curLemma, curBinding = nil, nil, nil
		case kw == "global-inv":
			c, err := mk(rest, rl.line)
			if err != nil {
				return nil, err
			}
			cf.GlobalInvs = append(cf.GlobalInvs, &GlobalInv{Pkg: pkgPath, C: c, File: path})
			cur, curLemma = nil, nil
		case kw == "lemma" || kw == "axiom":
			m := lemmaHdrRe.FindStringSubmatch(t)
			if m == nil {
				return nil, fmt.Errorf("%s:%d: bad lemma header %q", path, rl.line, t)
			}
			bs, err := parseBinders(m[3])
			if err != nil {
				return nil, fmt.Errorf("%s:%d: %v", path, rl.line, err)
			}
			curLemma = &Lemma{Name: m[2], Pkg: pkgPath, Params: bs, File: path, Line: rl.line}
			cur = nil
			curBinding = nil
			if kw == "axiom" {
				cf.Axioms = append(cf.Axioms, curLemma)
			} else {
				cf.Lemmas = append(cf.Lemmas, curLemma)
			}
		case kw == "props":
			ps := strings.Fields(rest)
			if cur != nil {
				cur.Props = ps
			} else if curLemma != nil {
				curLemma.Props = ps
			}
		case kw == "requires" || kw == "ensures":
			c, err := mk(rest, rl.line)
			if err != nil {
				return nil, err
			}
			if cur != nil {
				if kw == "requires" {
					cur.Requires = append(cur.Requires, c)
				} else {
					cur.Ensures = append(cur.Ensures, c)
				}
			} else if curLemma != nil {
				if kw == "requires" {
					curLemma.Requires = append(curLemma.Requires, c)
				} else {
					curLemma.Ensures = append(curLemma.Ensures, c)
				}
			} else {
				return nil, fmt.Errorf("%s:%d: clause outside contract", path, rl.line)
			}
		case kw == "uses" && curLemma != nil:
			c, err := mk(rest, rl.line)
			if err != nil {
				return nil, err
			}
			curLemma.Uses = append(curLemma.Uses, c)
		case kw == "decreases" && curLemma != nil:
			c, err := mk(rest, rl.line)
			if err != nil {
				return nil, err
			}
			curLemma.Decreases = c
		case cur == nil:
			return nil, fmt.Errorf("%s:%d: clause %q outside func contract", path, rl.line, kw)
		case kw == "assigns":
			cur.HasFrame = true
			for _, d := range splitTop(rest, ",") {
				d = strings.TrimSpace(d)
				if d != "" && d != "nothing" {
					cur.Assigns = append(cur.Assigns, d)
				}
			}
		case kw == "function" || kw == "defines":
			c, err := mk(rest, rl.line)
			if err != nil {
				return nil, err
			}
			cur.Function = c
			cur.Defines = kw == "defines"
			cur.Pure = true
			cur.HasFrame = true
		case kw == "allocbound":
			c, err := mk(rest, rl.line)
			if err != nil {
				return nil, err
			}
			cur.AllocBound = c
		case kw == "ghostadd":
			// ghostadd <set> <object> <element>   (object and element are spec expressions separated by " , ")
			fs := strings.SplitN(rest, " ", 2)
			if len(fs) != 2 {
				return nil, fmt.Errorf("%s:%d: bad ghostadd", path, rl.line)
			}
			parts := splitTop(fs[1], ",")
			if len(parts) != 2 {
				return nil, fmt.Errorf("%s:%d: ghostadd needs <object>, <element>", path, rl.line)
			}
			oc, err := mk(parts[0], rl.line)
			if err != nil {
				return nil, err
			}
			ec, err := mk(parts[1], rl.line)
			if err != nil {
				return nil, err
			}
			cur.GhostAdds = append(cur.GhostAdds, GhostAdd{Set: fs[0], Obj: oc, Elem: ec})
			cur.HasFrame = true
		case kw == "ghostput":
			fs := strings.SplitN(rest, " ", 2)
			if len(fs) != 2 {
				return nil, fmt.Errorf("%s:%d: bad ghostput", path, rl.line)
			}
			parts := splitTop(fs[1], ",")
			if len(parts) != 3 {
				return nil, fmt.Errorf("%s:%d: ghostput needs <object>, <key>, <value>", path, rl.line)
			}
			var cs [3]*Clause
			for i, p := range parts {
				c, err := mk(p, rl.line)
				if err != nil {
					return nil, err
				}
				cs[i] = c
			}
			cur.GhostPuts = append(cur.GhostPuts, GhostPut{Map: fs[0], Obj: cs[0], Key: cs[1], Val: cs[2]})
			cur.HasFrame = true
		case kw == "nosafety":
			cur.NoSafety = true
		case kw == "noalloc":
			cur.NoAlloc = true
		case kw == "pure":
			cur.Pure = true
			cur.HasFrame = true
		case kw == "wrapping":
			cur.Wrapping = true
		case kw == "prune":
			cur.Prune = true
		case kw == "trusted":
			cur.Trusted = true
		case kw == "inline":
			cur.Inline = true
		case kw == "bounded":
			n, err := strconv.Atoi(rest)
			if err != nil {
				return nil, fmt.Errorf("%s:%d: bad bound", path, rl.line)
			}
			cur.Bounded = n
		case kw == "let":
			ps := strings.SplitN(rest, ":=", 2)
			if len(ps) != 2 {
				return nil, fmt.Errorf("%s:%d: bad let", path, rl.line)
			}
			c, err := mk(ps[1], rl.line)
			if err != nil {
				return nil, err
			}
			cur.Lets = append(cur.Lets, struct {
				Name string
				C    *Clause
			}{strings.TrimSpace(ps[0]), c})
		case kw == "loop":
			m := loopRe.FindStringSubmatch(t)
			if m == nil {
				return nil, fmt.Errorf("%s:%d: bad loop clause %q", path, rl.line, t)
			}
			n, _ := strconv.Atoi(m[1])
			ls := cur.Loops[n]
			if ls == nil {
				ls = &LoopSpec{}
				cur.Loops[n] = ls
			}
			c, err := mk(m[3], rl.line)
			if err != nil {
				return nil, err
			}
			if m[2] == "invariant" {
				ls.Invariants = append(ls.Invariants, c)
			} else if m[2] == "entry-hint" {
				ls.EntryHints = append(ls.EntryHints, c)
			} else if m[2] == "break-hint" {
				ls.BreakHints = append(ls.BreakHints, c)
			} else if m[2] == "step-hint" {
				ls.StepHints = append(ls.StepHints, c)
			} else {
				ls.Decreases = c
			}
		default:
			return nil, fmt.Errorf("%s:%d: unknown clause %q", path, rl.line, kw)
		}
	}
	for _, c := range cf.Contracts {
		if c.Extern {
			c.Trusted = true
			// Name "pkg.Func" / RecvName "pkg.Type"
			c.Key = externKey(c)
		} else if c.RecvName != "" {
			c.Key = pkgPath + "." + c.RecvName + "." + c.Name
		} else {
			c.Key = pkgPath + "." + c.Name
		}
	}
	return cf, nil
}

func externKey(c *Contract) string {
	if c.RecvName != "" {
		return "extern:" + c.RecvName + "." + c.Name
	}
	return "extern:" + c.Name
}

// parseExternSig parses "(a, b []byte) (r bool)" into names.
func parseExternSig(c *Contract, sig string) error {
	end := matchClose(sig, 0)
	if end < 0 {
		return fmt.Errorf("bad extern signature %q", sig)
	}
	bs, err := parseBindersLoose(sig[1:end])
	if err != nil {
		return err
	}
	c.Params = bs
	rest := strings.TrimSpace(sig[end+1:])
	if strings.HasPrefix(rest, "(") {
		e2 := matchClose(rest, 0)
		rs, err := parseBindersLoose(rest[1:e2])
		if err != nil {
			return err
		}
		c.Results = rs
	}
	return nil
}

// parseBindersLoose returns only names from "a, b T, c U".
func parseBindersLoose(s string) ([]string, error) {
	var out []string
	for _, p := range splitTop(s, ",") {
		p = strings.TrimSpace(p)
		if p == "" {
			continue
		}
		out = append(out, strings.Fields(p)[0])
	}
	return out, nil
}
