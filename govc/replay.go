package main

// Replay of solver counterexamples against the real code: an in-package Go test is generated from the
// model and injected with `go test -overlay` (nothing is written into the repository).

import (
	"bytes"
	"encoding/json"
	"fmt"
	"go/ast"
	"go/parser"
	"go/printer"
	"go/token"
	"go/types"
	"os"
	"os/exec"
	"path/filepath"
	"regexp"
	"strconv"
	"strings"
)

// inputLeaves enumerates the scalar leaves reachable from a parameter (used for get-value and replay).
func (e *Engine) inputLeaves(s *State, name string, v *Val, depth int, out *[]InputSym) {
	t := v.T
	ts := types.TypeString(t, func(p *types.Package) string { return p.Name() })
	switch u := t.Underlying().(type) {
	case *types.Basic:
		*out = append(*out, InputSym{Name: name, Sym: v.S, Type: ts})
	case *types.Pointer:
		*out = append(*out, InputSym{Name: "isnil:" + name, Sym: eq(v.S, "0"), Type: "bool"})
		if depth > 1 {
			return
		}
		if isBigInt(u.Elem()) {
			*out = append(*out, InputSym{Name: "big:" + name, Sym: fmt.Sprintf("(select %s %s)", s.heap("H:big", "(Array Int Int)"), v.S), Type: "big"})
			return
		}
		if _, ok := u.Elem().Underlying().(*types.Struct); ok {
			hn, hs := e.ptrHeap(u.Elem())
			pv := &Val{T: u.Elem(), S: fmt.Sprintf("(select %s %s)", s.heap(hn, hs), v.S)}
			e.inputLeaves(s, name, pv, depth+1, out)
		}
	case *types.Struct:
		si := e.structSort(t)
		for i, f := range si.Fields {
			switch f.Type().Underlying().(type) {
			case *types.Basic, *types.Slice:
				e.inputLeaves(s, name+"."+f.Name(), e.getField(v, i), depth, out)
			case *types.Pointer:
				if depth < 1 {
					e.inputLeaves(s, name+"."+f.Name(), e.getField(v, i), depth+1, out)
				}
			}
		}
	case *types.Slice:
		if isByte(u.Elem()) {
			*out = append(*out, InputSym{Name: name, Sym: v.S, Type: ts})
		} else {
			*out = append(*out, InputSym{Name: "len:" + name, Sym: "(sl_len " + v.S + ")", Type: "int"})
		}
	case *types.Array:
		if isByte(u.Elem()) {
			*out = append(*out, InputSym{Name: name, Sym: v.S, Type: ts})
		}
	case *types.Interface:
		*out = append(*out, InputSym{Name: "isnil:" + name, Sym: eq(v.S, "0"), Type: "bool"})
	}
}

// specToGo renders a specification expression as Go source (quantifiers are not executable).
func specToGo(e SpecExpr, olds *[]string) (string, error) {
	switch x := e.(type) {
	case *SImplies:
		a, err := specToGo(x.A, olds)
		if err != nil {
			return "", err
		}
		b, err := specToGo(x.B, olds)
		if err != nil {
			return "", err
		}
		return fmt.Sprintf("(!(%s) || (%s))", a, b), nil
	case *SIff:
		a, err := specToGo(x.A, olds)
		if err != nil {
			return "", err
		}
		b, err := specToGo(x.B, olds)
		if err != nil {
			return "", err
		}
		return fmt.Sprintf("((%s) == (%s))", a, b), nil
	case *SQuant:
		return "", fmt.Errorf("quantifier is not executable")
	case *SGo:
		var buf bytes.Buffer
		if err := printer.Fprint(&buf, token.NewFileSet(), x.E); err != nil {
			return "", err
		}
		src := buf.String()
		for name, sub := range x.Subs {
			g, err := specToGo(sub, olds)
			if err != nil {
				return "", err
			}
			src = regexp.MustCompile(`\b`+name+`\b`).ReplaceAllString(src, "("+strings.ReplaceAll(g, "$", "$$")+")")
		}
		// old(e) -> __oldK
		for {
			i := strings.Index(src, "old(")
			if i < 0 || (i > 0 && isIdentChar(src[i-1])) {
				break
			}
			end := matchClose(src, i+3)
			if end < 0 {
				return "", fmt.Errorf("bad old()")
			}
			inner := src[i+4 : end]
			*olds = append(*olds, inner)
			src = src[:i] + fmt.Sprintf("__old%d", len(*olds)-1) + src[end+1:]
		}
		return src, nil
	}
	return "", fmt.Errorf("unknown spec node")
}

var modelIntRe = regexp.MustCompile(`^\(-\s*([0-9]+)\)$`)

func modelInt(v string) (string, bool) {
	v = strings.TrimSpace(v)
	if m := modelIntRe.FindStringSubmatch(v); m != nil {
		return "-" + m[1], true
	}
	if _, err := strconv.ParseUint(v, 10, 64); err == nil {
		return v, true
	}
	if regexp.MustCompile(`^[0-9]+$`).MatchString(v) {
		return v, true
	}
	return "", false
}

// modelBytes parses a (Seq Int) model value into a Go []byte literal.
func modelBytes(v string) (string, bool) {
	v = strings.TrimSpace(v)
	if strings.Contains(v, "seq.empty") {
		return "[]byte{}", true
	}
	nums := regexp.MustCompile(`\(seq\.unit\s+(\(-\s*[0-9]+\)|[0-9]+)\)`).FindAllStringSubmatch(v, -1)
	if len(nums) == 0 {
		return "", false
	}
	// make sure the value consists of units only
	rest := regexp.MustCompile(`\(seq\.unit\s+(\(-\s*[0-9]+\)|[0-9]+)\)`).ReplaceAllString(v, "")
	rest = strings.NewReplacer("seq.++", "", "(", "", ")", "", " ", "", "\n", "").Replace(rest)
	if rest != "" {
		return "", false
	}
	var bs []string
	for _, n := range nums {
		iv, ok := modelInt(n[1])
		if !ok {
			return "", false
		}
		x, err := strconv.Atoi(iv)
		if err != nil || x < 0 || x > 255 {
			return "", false
		}
		bs = append(bs, strconv.Itoa(x))
	}
	if len(bs) > 1<<16 {
		return "", false
	}
	return "[]byte{" + strings.Join(bs, ", ") + "}", true
}

type replayPlan struct {
	Pkg      string `json:"pkg"`      // import path
	Dir      string `json:"dir"`      // package directory relative to repo
	TestName string `json:"test"`
	Source   string `json:"source"`   // generated test source
	TestFile string `json:"test_file"` // where the source is stored under /verif
}

func (r *Report) tryReplay(o *Obligation, rp map[string]interface{}, dir string) bool {
	plan, err := r.buildReplay(o)
	if err != nil {
		rp["replay_note"] = "no executable replay: " + err.Error()
		return false
	}
	plan.TestFile = filepath.Join(dir, sanitizeFile(o.Name)+"_replay_test.go")
	os.WriteFile(plan.TestFile, []byte(plan.Source), 0o644)
	rp["replay"] = plan
	ok, out := runReplay(r.eng.repoDir, plan)
	rp["replay_output"] = firstLines(out, 30)
	return ok
}

// runReplay runs the generated test against the real code. ok = the real code misbehaved as predicted.
func runReplay(repo string, plan *replayPlan) (bool, string) {
	ov := map[string]map[string]string{"Replace": {filepath.Join(repo, plan.Dir, "zz_govc_replay_test.go"): plan.TestFile}}
	// packages that import the cgo VM only build with the contract-package stub (tools/stub/overlay.json)
	if data, err := os.ReadFile("/verif/tools/stub/overlay.json"); err == nil {
		var stub struct{ Replace map[string]string }
		if json.Unmarshal(data, &stub) == nil {
			for k, v := range stub.Replace {
				ov["Replace"][filepath.Join(repo, k)] = v
			}
		}
	}
	ovb, _ := json.Marshal(ov)
	ovf := plan.TestFile + ".overlay.json"
	os.WriteFile(ovf, ovb, 0o644)
	cmd := exec.Command("bash", "-c", fmt.Sprintf("ulimit -v 8000000; cd %s && go test -overlay %s -vet=off -count=1 -timeout 60s -run '^%s$' ./%s/ 2>&1", repo, ovf, plan.TestName, plan.Dir))
	cmd.Env = append(os.Environ(), "GOFLAGS=-mod=mod", "GOPROXY=off", "GOSUMDB=off", "GOTOOLCHAIN=local")
	out, _ := cmd.CombinedOutput()
	s := string(out)
	return strings.Contains(s, "REPLAY-VIOLATION"), s
}

func (r *Report) buildReplay(o *Obligation) (*replayPlan, error) {
	eng := r.eng
	if o.Result == nil || o.Result.Model == nil {
		return nil, fmt.Errorf("no model")
	}
	vc := o.vc
	if vc.replayFn == nil && vc.replayLemma == nil {
		return nil, fmt.Errorf("no replay information")
	}
	model := map[string]string{}
	for _, in := range o.Inputs {
		if v, ok := o.Result.Model[in.Sym]; ok {
			model[in.Name] = v
		}
	}
	var b strings.Builder
	var pkgName, pkgDir, pkgPath string
	var params []*types.Var
	var recv *types.Var
	var callExpr string
	var ensures []*Clause
	var requires []*Clause
	var resNames []string
	if fi := vc.replayFn; fi != nil {
		pkgName = fi.Pkg.Types.Name()
		pkgPath = fi.Pkg.PkgPath
		sig := fi.Obj.Type().(*types.Signature)
		if sig.Recv() != nil {
			recv = sig.Recv()
		}
		for i := 0; i < sig.Params().Len(); i++ {
			params = append(params, sig.Params().At(i))
		}
		c := eng.contracts[fi.Key]
		ensures = c.Ensures
		_, resNames = eng.contractNames(c, fi.Obj, nil, nil)
		var args []string
		for _, p := range params {
			args = append(args, p.Name())
		}
		if sig.Variadic() && len(args) > 0 {
			args[len(args)-1] += "..."
		}
		if recv != nil {
			rn := recv.Name()
			if fi.Decl.Recv != nil && len(fi.Decl.Recv.List[0].Names) > 0 {
				rn = fi.Decl.Recv.List[0].Names[0].Name
			}
			recv = types.NewVar(0, recv.Pkg(), rn, recv.Type())
			callExpr = fmt.Sprintf("%s.%s(%s)", rn, fi.Obj.Name(), strings.Join(args, ", "))
		} else {
			callExpr = fmt.Sprintf("%s(%s)", fi.Obj.Name(), strings.Join(args, ", "))
		}
	} else {
		l := vc.replayLemma
		pp := eng.pkgs[l.Pkg]
		if pp == nil {
			return nil, fmt.Errorf("lemma package not loaded")
		}
		pkgName = pp.Types.Name()
		pkgPath = pp.PkgPath
		for _, bd := range l.Params {
			t, err := eng.resolveType(bd.Type, pp.Types)
			if err != nil {
				return nil, err
			}
			params = append(params, types.NewVar(0, pp.Types, bd.Name, t))
		}
		ensures = l.Ensures
		requires = l.Requires
	}
	rel := strings.TrimPrefix(pkgPath, "github.com/aergoio/aergo/v2/")
	pkgDir = rel
	qual := func(p *types.Package) string {
		if p.Path() == pkgPath {
			return ""
		}
		return p.Name()
	}
	imports := map[string]bool{}
	noteImports := func(t types.Type) {
		var walk func(t types.Type)
		walk = func(t types.Type) {
			switch u := t.(type) {
			case *types.Named:
				if u.Obj().Pkg() != nil && u.Obj().Pkg().Path() != pkgPath {
					imports[u.Obj().Pkg().Path()] = true
				}
			case *types.Pointer:
				walk(u.Elem())
			case *types.Slice:
				walk(u.Elem())
			}
		}
		walk(t)
	}
	var decl strings.Builder
	// globals
	for name, v := range model {
		if strings.HasPrefix(name, "global:") {
			iv, ok := modelInt(v)
			if !ok {
				if v == "true" || v == "false" {
					iv = v
				} else {
					continue
				}
			}
			fmt.Fprintf(&decl, "\t%s = %s\n", strings.TrimPrefix(name, "global:"), iv)
		}
	}
	mkVar := func(p *types.Var) error {
		name := p.Name()
		t := p.Type()
		noteImports(t)
		ts := types.TypeString(t, qual)
		switch u := t.Underlying().(type) {
		case *types.Basic:
			mv, ok := model[name]
			if !ok {
				fmt.Fprintf(&decl, "\tvar %s %s\n", name, ts)
				return nil
			}
			switch {
			case u.Info()&types.IsInteger != 0:
				iv, ok := modelInt(mv)
				if !ok {
					return fmt.Errorf("cannot read model value %q of %s", mv, name)
				}
				fmt.Fprintf(&decl, "\tvar %s %s = %s\n", name, ts, iv)
			case u.Info()&types.IsBoolean != 0:
				fmt.Fprintf(&decl, "\tvar %s %s = %s\n", name, ts, mv)
			case u.Info()&types.IsString != 0:
				bl, ok := modelBytes(mv)
				if !ok {
					return fmt.Errorf("cannot read model string of %s", name)
				}
				fmt.Fprintf(&decl, "\tvar %s %s = %s(%s)\n", name, ts, ts, bl)
			default:
				return fmt.Errorf("unsupported basic type %s", ts)
			}
			return nil
		case *types.Slice:
			if isByte(u.Elem()) {
				mv, ok := model[name]
				if !ok {
					fmt.Fprintf(&decl, "\tvar %s %s\n", name, ts)
					return nil
				}
				bl, ok := modelBytes(mv)
				if !ok {
					return fmt.Errorf("cannot read model bytes of %s", name)
				}
				fmt.Fprintf(&decl, "\tvar %s %s = %s\n", name, ts, bl)
				return nil
			}
			return fmt.Errorf("slice parameter %s not constructible", name)
		case *types.Pointer:
			if model["isnil:"+name] == "true" {
				fmt.Fprintf(&decl, "\tvar %s %s = nil\n", name, ts)
				return nil
			}
			st, ok := u.Elem().Underlying().(*types.Struct)
			if !ok {
				return fmt.Errorf("pointer parameter %s not constructible", name)
			}
			ets := types.TypeString(u.Elem(), qual)
			var fs []string
			for i := 0; i < st.NumFields(); i++ {
				f := st.Field(i)
				mv, ok := model[name+"."+f.Name()]
				if !ok {
					continue
				}
				if !f.Exported() && f.Pkg() != nil && f.Pkg().Path() != pkgPath {
					continue
				}
				switch fu := f.Type().Underlying().(type) {
				case *types.Basic:
					if fu.Info()&types.IsInteger != 0 {
						if iv, ok := modelInt(mv); ok {
							fs = append(fs, fmt.Sprintf("%s: %s", f.Name(), iv))
						}
					} else if fu.Info()&types.IsBoolean != 0 {
						fs = append(fs, fmt.Sprintf("%s: %s", f.Name(), mv))
					} else if fu.Info()&types.IsString != 0 {
						if bl, ok := modelBytes(mv); ok {
							fs = append(fs, fmt.Sprintf("%s: string(%s)", f.Name(), bl))
						}
					}
				case *types.Slice:
					if isByte(fu.Elem()) {
						if bl, ok := modelBytes(mv); ok {
							fs = append(fs, fmt.Sprintf("%s: %s", f.Name(), bl))
						}
					}
				}
			}
			fmt.Fprintf(&decl, "\tvar %s %s = &%s{%s}\n", name, ts, ets, strings.Join(fs, ", "))
			return nil
		}
		return fmt.Errorf("parameter %s of type %s not constructible", name, ts)
	}
	if recv != nil {
		if err := mkVar(recv); err != nil {
			return nil, err
		}
	}
	for _, p := range params {
		if p.Name() == "" || p.Name() == "_" {
			return nil, fmt.Errorf("unnamed parameter")
		}
		if err := mkVar(p); err != nil {
			return nil, err
		}
	}
	testName := "TestGovcReplay"
	// body
	var body strings.Builder
	kind := baseKind(o.Kind)
	isPanicKind := map[string]bool{"nil": true, "idx": true, "div": true, "slice": true, "assert-type": true, "panic": true, "nilmap": true, "make": true}[kind]
	var olds []string
	var posts []string
	if strings.HasPrefix(kind, "post") || strings.HasPrefix(kind, "lemma") {
		for _, en := range ensures {
			g, err := specToGo(en.E, &olds)
			if err != nil {
				continue
			}
			posts = append(posts, g)
		}
		if len(posts) == 0 {
			return nil, fmt.Errorf("postconditions are not executable")
		}
	} else if !isPanicKind {
		return nil, fmt.Errorf("obligation kind %s has no observable failure on the real code (Go wraps silently)", kind)
	}
	for i, oe := range olds {
		fmt.Fprintf(&body, "\t__old%d := %s\n", i, oe)
	}
	if vc.replayFn != nil {
		// the input built from the model must satisfy the contract's precondition on the real code, otherwise a
		// failure of the call proves nothing: every requires clause is compiled and checked first
		if c := eng.contracts[vc.replayFn.Key]; c != nil {
			var olds3 []string
			for _, rq := range c.Requires {
				g, err := specToGo(rq.E, &olds3)
				if err != nil || len(olds3) > 0 {
					return nil, fmt.Errorf("precondition %q is not executable; the model cannot be validated against it", rq.Text)
				}
				fmt.Fprintf(&body, "\tif !(%s) {\n\t\tt.Skip(\"the input built from the model does not satisfy the precondition\")\n\t}\n", g)
			}
		}
		fmt.Fprintf(&body, "\tdefer func() {\n\t\tif r := recover(); r != nil {\n\t\t\tt.Fatalf(\"REPLAY-VIOLATION panic: %%v\", r)\n\t\t}\n\t}()\n")
		nres := vc.replayFn.Obj.Type().(*types.Signature).Results().Len()
		if nres > 0 {
			var rs []string
			for i := 0; i < nres; i++ {
				n := resNames[i]
				if nres == 1 {
					n = "result"
				}
				rs = append(rs, n)
			}
			fmt.Fprintf(&body, "\t%s := %s\n", strings.Join(rs, ", "), callExpr)
			for _, n := range rs {
				fmt.Fprintf(&body, "\t_ = %s\n", n)
			}
			if nres == 1 && resNames[0] != "result0" && resNames[0] != "result" {
				fmt.Fprintf(&body, "\t%s := result\n\t_ = %s\n", resNames[0], resNames[0])
			}
		} else {
			fmt.Fprintf(&body, "\t%s\n", callExpr)
		}
	} else {
		var olds2 []string
		for _, rq := range requires {
			g, err := specToGo(rq.E, &olds2)
			if err != nil {
				return nil, fmt.Errorf("lemma hypothesis not executable")
			}
			fmt.Fprintf(&body, "\tif !(%s) {\n\t\tt.Skip(\"hypothesis does not hold on the real code for this model\")\n\t}\n", g)
		}
	}
	for _, g := range posts {
		fmt.Fprintf(&body, "\tif !(%s) {\n\t\tt.Fatalf(\"REPLAY-VIOLATION postcondition does not hold: %%s\", %q)\n\t}\n", g, g)
	}
	fmt.Fprintf(&b, "package %s\n\n// generated by govc: replay of %s\n\nimport (\n\t\"testing\"\n", pkgName, o.Name)
	for p := range imports {
		fmt.Fprintf(&b, "\t%q\n", p)
	}
	fmt.Fprintf(&b, ")\n\n")
	b.WriteString(`func tdiv[T ~int | ~int8 | ~int16 | ~int32 | ~int64 | ~uint | ~uint8 | ~uint16 | ~uint32 | ~uint64](a, b T) T { return a / b }
func tmod[T ~int | ~int8 | ~int16 | ~int32 | ~int64 | ~uint | ~uint8 | ~uint16 | ~uint32 | ~uint64](a, b T) T { return a % b }

`)
	fmt.Fprintf(&b, "func %s(t *testing.T) {\n%s%s}\n", testName, decl.String(), body.String())
	src := b.String()
	// sanity: the source must parse
	if _, err := parser.ParseFile(token.NewFileSet(), "x_test.go", src, 0); err != nil {
		return nil, fmt.Errorf("generated replay does not parse: %v", err)
	}
	_ = ast.Unparen
	return &replayPlan{Pkg: pkgPath, Dir: pkgDir, TestName: testName, Source: src}, nil
}

// cmdReplay re-runs a recorded replay file.
func cmdReplay(args []string) int {
	if len(args) < 1 {
		fmt.Fprintln(os.Stderr, "usage: govc replay <replay.json>")
		return 2
	}
	data, err := os.ReadFile(args[0])
	if err != nil {
		fmt.Fprintln(os.Stderr, err)
		return 2
	}
	var rp struct {
		Property   string      `json:"property"`
		Obligation string      `json:"obligation"`
		What       string      `json:"what"`
		Replay     *replayPlan `json:"replay"`
		Output     string      `json:"solver_output"`
	}
	if err := json.Unmarshal(data, &rp); err != nil {
		fmt.Fprintln(os.Stderr, err)
		return 2
	}
	fmt.Printf("obligation %s: %s\n", rp.Obligation, rp.What)
	if rp.Replay == nil {
		fmt.Println("no executable replay recorded (no-failing-input-found); solver output:")
		fmt.Println(rp.Output)
		return 1
	}
	ok, out := runReplay("/repo", rp.Replay)
	fmt.Println(out)
	if ok {
		fmt.Printf("VIOLATION property=%s replay=%s\n", rp.Property, args[0])
		return 1
	}
	fmt.Println("replay did not reproduce on the current tree")
	return 0
}
