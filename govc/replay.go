package main

func (r *Report) tryReplay(o *Obligation, rp map[string]interface{}, dir string) bool {
	return false
}
