package main

// Engine: package loading, contract lookup, function table.

import (
	"fmt"
	"go/ast"
	"go/token"
	"go/types"
	"os"
	"path/filepath"
	"sort"
	"strings"

	"golang.org/x/tools/go/packages"
)

const modulePath = "github.com/aergoio/aergo/v2"

type FuncInfo struct {
	Obj  *types.Func
	Decl *ast.FuncDecl
	Pkg  *packages.Package
	Key  string
}

type Engine struct {
	fset      *token.FileSet
	pkgs      map[string]*packages.Package // by path, all loaded incl. deps
	roots     []*packages.Package
	funcs     map[*types.Func]*FuncInfo
	funcByKey map[string]*FuncInfo
	contracts map[string]*Contract
	preds     map[string]*Pred
	lemmas    []*Lemma
	bindings  []*Binding
	axioms    []*Lemma
	structs   map[string]*StructInfo
	syms      *SymTab
	nfresh    int
	typeIDs   map[string]int
	typeByID  []types.Type
	assigned  map[types.Object]bool // package-level vars assigned somewhere (outside their declaration)
	assumptions map[string]bool
	trustedUsed map[string]bool
	havocked    map[string]bool
	inlined     map[string]bool
	dropped     map[string]int
	unsupported []string
	repoDir   string
	verbose   bool
	knownFindings []*KnownFinding
	staleLoops    []string
	heapTypes     map[string]types.Type // heap name -> Go type of the objects / elements it holds
	globalInvs    []*GlobalInv
	fieldFuncs    map[string]string
	globalInit    map[types.Object]globalInitExpr
}

type globalInitExpr struct {
	expr ast.Expr
	pkg  *packages.Package
}

func newEngine(repo string) *Engine {
	e := &Engine{
		repoDir: repo, pkgs: map[string]*packages.Package{}, funcs: map[*types.Func]*FuncInfo{}, funcByKey: map[string]*FuncInfo{},
		contracts: map[string]*Contract{}, preds: map[string]*Pred{}, structs: map[string]*StructInfo{}, syms: newSymTab(),
		typeIDs: map[string]int{}, assigned: map[types.Object]bool{}, assumptions: map[string]bool{}, trustedUsed: map[string]bool{},
		havocked: map[string]bool{}, inlined: map[string]bool{}, dropped: map[string]int{},
	}
	e.typeByID = append(e.typeByID, nil) // id 0 = nil interface
	e.lazySyms()
	return e
}

func (e *Engine) fresh(prefix string) string {
	e.nfresh++
	return fmt.Sprintf("%s!%d", sanitizeSym(prefix), e.nfresh)
}

func sanitizeSym(s string) string {
	var b strings.Builder
	for _, r := range s {
		switch {
		case r >= 'a' && r <= 'z', r >= 'A' && r <= 'Z', r >= '0' && r <= '9', r == '_', r == '.':
			b.WriteRune(r)
		default:
			b.WriteByte('_')
		}
	}
	if b.Len() == 0 {
		return "v"
	}
	return b.String()
}

func (e *Engine) typeID(t types.Type) int {
	k := types.TypeString(t, nil)
	if id, ok := e.typeIDs[k]; ok {
		return id
	}
	id := len(e.typeByID)
	e.typeIDs[k] = id
	e.typeByID = append(e.typeByID, t)
	return id
}

func (e *Engine) load(patterns []string) error {
	cfg := &packages.Config{
		Mode: packages.NeedName | packages.NeedSyntax | packages.NeedTypes | packages.NeedTypesInfo | packages.NeedDeps |
			packages.NeedImports | packages.NeedFiles | packages.NeedCompiledGoFiles,
		Dir:        e.repoDir,
		BuildFlags: []string{"-tags=verif"},
		Env:        append(os.Environ(), "GOFLAGS=-mod=mod", "GOPROXY=off", "GOSUMDB=off", "GOTOOLCHAIN=local", "CGO_ENABLED=1"),
	}
	pkgs, err := packages.Load(cfg, patterns...)
	if err != nil {
		return err
	}
	e.roots = pkgs
	packages.Visit(pkgs, nil, func(p *packages.Package) {
		e.pkgs[p.PkgPath] = p
		if p.Fset != nil {
			e.fset = p.Fset
		}
	})
	for _, p := range pkgs {
		if len(p.Syntax) == 0 {
			return fmt.Errorf("package %s: no syntax loaded (errors: %v)", p.PkgPath, p.Errors)
		}
	}
	// function table for all packages of this module (bodies available)
	for _, p := range e.pkgs {
		if p.TypesInfo == nil {
			continue
		}
		if !strings.HasPrefix(p.PkgPath, modulePath) {
			continue // bodies of dependencies are never inlined: contract, model or havoc
		}
		for _, f := range p.Syntax {
			for _, d := range f.Decls {
				if gd, ok := d.(*ast.GenDecl); ok && gd.Tok == token.VAR {
					for _, sp := range gd.Specs {
						vs := sp.(*ast.ValueSpec)
						if len(vs.Values) != len(vs.Names) {
							continue
						}
						for i, n := range vs.Names {
							if o := p.TypesInfo.Defs[n]; o != nil {
								if e.globalInit == nil {
									e.globalInit = map[types.Object]globalInitExpr{}
								}
								e.globalInit[o] = globalInitExpr{vs.Values[i], p}
							}
						}
					}
				}
				fd, ok := d.(*ast.FuncDecl)
				if !ok || fd.Body == nil {
					continue
				}
				obj, _ := p.TypesInfo.Defs[fd.Name].(*types.Func)
				if obj == nil {
					continue
				}
				fi := &FuncInfo{Obj: obj, Decl: fd, Pkg: p, Key: funcKey(obj)}
				e.funcs[obj] = fi
				e.funcByKey[fi.Key] = fi
			}
			// assigned package-level vars
			ast.Inspect(f, func(n ast.Node) bool {
				switch s := n.(type) {
				case *ast.AssignStmt:
					if s.Tok == token.DEFINE {
						return true
					}
					for _, l := range s.Lhs {
						e.markAssigned(p, l)
					}
				case *ast.IncDecStmt:
					e.markAssigned(p, s.X)
				case *ast.UnaryExpr:
					if s.Op == token.AND {
						e.markAssigned(p, s.X)
					}
				}
				return true
			})
		}
	}
	return nil
}

func (e *Engine) markAssigned(p *packages.Package, l ast.Expr) {
	for {
		switch x := l.(type) {
		case *ast.ParenExpr:
			l = x.X
			continue
		case *ast.Ident:
			if o := p.TypesInfo.Uses[x]; o != nil {
				if v, ok := o.(*types.Var); ok && v.Parent() == v.Pkg().Scope() {
					e.assigned[v] = true
				}
			}
		case *ast.SelectorExpr:
			if o := p.TypesInfo.Uses[x.Sel]; o != nil {
				if v, ok := o.(*types.Var); ok && !v.IsField() && v.Pkg() != nil && v.Parent() == v.Pkg().Scope() {
					e.assigned[v] = true
				}
			}
		}
		return
	}
}

func funcKey(f *types.Func) string {
	sig := f.Type().(*types.Signature)
	pkg := ""
	if f.Pkg() != nil {
		pkg = f.Pkg().Path()
	}
	if r := sig.Recv(); r != nil {
		t := r.Type()
		if p, ok := t.(*types.Pointer); ok {
			t = p.Elem()
		}
		if n, ok := t.(*types.Named); ok {
			return pkg + "." + n.Obj().Name() + "." + f.Name()
		}
		return pkg + ".?." + f.Name()
	}
	return pkg + "." + f.Name()
}

// externKeyOf returns the key used by extern contracts: "pkgname.Func" or "pkgname.Type.Method"
func externKeyOf(f *types.Func) string {
	sig := f.Type().(*types.Signature)
	pkg := ""
	if f.Pkg() != nil {
		pkg = f.Pkg().Path()
	}
	if r := sig.Recv(); r != nil {
		t := r.Type()
		if p, ok := t.(*types.Pointer); ok {
			t = p.Elem()
		}
		if n, ok := t.(*types.Named); ok {
			p2 := pkg
			if n.Obj().Pkg() != nil {
				p2 = n.Obj().Pkg().Path()
			}
			if p2 == "" {
				return "extern:" + n.Obj().Name() + "." + f.Name()
			}
			return "extern:" + p2 + "." + n.Obj().Name() + "." + f.Name()
		}
	}
	return "extern:" + pkg + "." + f.Name()
}

// loadContracts reads zz_contracts_verif.go of every loaded package of the module plus stdlib contracts.
func (e *Engine) loadContracts(stdlib []string) error {
	var paths []string
	for path := range e.pkgs {
		paths = append(paths, path)
	}
	sort.Strings(paths)
	for _, path := range paths {
		p := e.pkgs[path]
		if len(p.GoFiles) == 0 {
			continue
		}
		dir := filepath.Dir(p.GoFiles[0])
		if !strings.HasPrefix(dir, e.repoDir) {
			continue
		}
		cfile := filepath.Join(dir, "zz_contracts_verif.go")
		if _, err := os.Stat(cfile); err != nil {
			continue
		}
		// must be comment-only
		for _, f := range p.Syntax {
			if e.fset.Position(f.Pos()).Filename == cfile && len(f.Decls) > 0 {
				return fmt.Errorf("%s contains declarations; contract files must be comment-only", cfile)
			}
		}
		cf, err := parseContractFile(cfile, path)
		if err != nil {
			return err
		}
		if err := e.addContractFile(cf); err != nil {
			return err
		}
	}
	for _, s := range stdlib {
		cf, err := parseContractFile(s, "")
		if err != nil {
			return err
		}
		if err := e.addContractFile(cf); err != nil {
			return err
		}
	}
	return nil
}

func (e *Engine) addContractFile(cf *ContractFile) error {
	for _, c := range cf.Contracts {
		if _, dup := e.contracts[c.Key]; dup {
			return fmt.Errorf("%s:%d: duplicate contract for %s", c.File, c.Line, c.Key)
		}
		if !c.Extern {
			if _, ok := e.funcByKey[c.Key]; !ok {
				// interface method contracts have no body; accept when the receiver is an interface type
				if !e.isInterfaceMethod(c) {
					return fmt.Errorf("%s:%d: contract anchor %s not found in the source (renamed or removed?)", c.File, c.Line, c.Key)
				}
				c.Trusted = true
			}
		}
		e.contracts[c.Key] = c
	}
	for _, p := range cf.Preds {
		if _, dup := e.preds[p.Name]; dup {
			return fmt.Errorf("%s: duplicate pred %s", p.File, p.Name)
		}
		e.preds[p.Name] = p
	}
	e.lemmas = append(e.lemmas, cf.Lemmas...)
	e.bindings = append(e.bindings, cf.Bindings...)
	e.axioms = append(e.axioms, cf.Axioms...)
	e.globalInvs = append(e.globalInvs, cf.GlobalInvs...)
	for k, v := range cf.FieldFuncs {
		if e.fieldFuncs == nil {
			e.fieldFuncs = map[string]string{}
		}
		e.fieldFuncs[k] = v
	}
	return nil
}

func (e *Engine) isInterfaceMethod(c *Contract) bool {
	p := e.pkgs[c.Pkg]
	if p == nil || p.Types == nil || c.RecvName == "" {
		return false
	}
	o := p.Types.Scope().Lookup(c.RecvName)
	if o == nil {
		return false
	}
	it, ok := o.Type().Underlying().(*types.Interface)
	if !ok {
		return false
	}
	for i := 0; i < it.NumMethods(); i++ {
		if it.Method(i).Name() == c.Name {
			return true
		}
	}
	return false
}

// contractFor finds the contract of a function object (own package contract, interface contract, or extern).
func (e *Engine) contractFor(f *types.Func) *Contract {
	if c, ok := e.contracts[funcKey(f)]; ok {
		return c
	}
	if c, ok := e.contracts[externKeyOf(f)]; ok {
		return c
	}
	return nil
}

func (e *Engine) posStr(p token.Pos) string {
	if !p.IsValid() {
		return "?"
	}
	ps := e.fset.Position(p)
	rel, err := filepath.Rel(e.repoDir, ps.Filename)
	if err != nil {
		rel = ps.Filename
	}
	return fmt.Sprintf("%s:%d", rel, ps.Line)
}
