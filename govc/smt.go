package main

// SMT layer: Go type -> SMT sort mapping, datatype registry, symbol table with
// dependency slicing, query emission.

import (
	"fmt"
	"go/types"
	"regexp"
	"sort"
	"strings"
)

// Sym is a declared SMT symbol (datatype, constant, function, definition).
type Sym struct {
	Name string
	Text string   // full SMT-LIB command(s)
	Deps []string // other symbols referenced by Text
	Ord  int
}

type SymTab struct {
	syms  map[string]*Sym
	order []*Sym
}

func newSymTab() *SymTab { return &SymTab{syms: map[string]*Sym{}} }

var tokRe = regexp.MustCompile(`[A-Za-z_][A-Za-z0-9_!.$@#]*`)

func (st *SymTab) add(name, text string) {
	if _, ok := st.syms[name]; ok {
		return
	}
	s := &Sym{Name: name, Text: text, Ord: len(st.order)}
	seen := map[string]bool{}
	for _, t := range tokRe.FindAllString(text, -1) {
		if t != name && !seen[t] {
			if _, ok := st.syms[t]; ok {
				seen[t] = true
				s.Deps = append(s.Deps, t)
			}
		}
	}
	st.syms[name] = s
	st.order = append(st.order, s)
}

// alias registers extra names that resolve to the same declaration (e.g.
// datatype constructors and accessors).
func (st *SymTab) alias(name string, target string) {
	if _, ok := st.syms[name]; ok {
		return
	}
	st.syms[name] = st.syms[target]
}

// closure returns the declarations needed by the given text, in declaration order.
func (st *SymTab) closure(texts ...string) []*Sym {
	need := map[*Sym]bool{}
	var work []*Sym
	push := func(t string) {
		if s, ok := st.syms[t]; ok && !need[s] {
			need[s] = true
			work = append(work, s)
		}
	}
	for _, tx := range texts {
		for _, t := range tokRe.FindAllString(tx, -1) {
			push(t)
		}
	}
	for len(work) > 0 {
		s := work[len(work)-1]
		work = work[:len(work)-1]
		for _, d := range s.Deps {
			push(d)
		}
	}
	out := make([]*Sym, 0, len(need))
	for s := range need {
		out = append(out, s)
	}
	sort.Slice(out, func(i, j int) bool { return out[i].Ord < out[j].Ord })
	return out
}

const prelude = `(define-fun tdiv ((a Int) (b Int)) Int (ite (>= a 0) (div a b) (- (div (- a) b))))
(define-fun tmod ((a Int) (b Int)) Int (- a (* b (tdiv a b))))
(define-fun b2i ((b Bool)) Int (ite b 1 0))
(declare-datatypes ((Slice 0)) (((mk_Slice (sl_ref Int) (sl_off Int) (sl_len Int) (sl_cap Int)))))
(declare-fun tagof (Int) Int)
(declare-fun ix (Int Int) Int)
(assert (forall ((a Int) (b Int)) (! (= (ix a b) (+ a b)) :pattern ((ix a b)))))
(declare-fun u_and (Int Int) Int)
(declare-fun u_or (Int Int) Int)
(declare-fun u_xor (Int Int) Int)
(declare-fun u_shl (Int Int) Int)
(declare-fun u_shr (Int Int) Int)
(declare-fun u_andnot (Int Int) Int)
(declare-fun maplen (Int) Int)
`

// ---------------------------------------------------------------------------
// sorts

func sanitize(s string) string {
	var b strings.Builder
	for _, r := range s {
		switch {
		case r >= 'a' && r <= 'z', r >= 'A' && r <= 'Z', r >= '0' && r <= '9', r == '_':
			b.WriteRune(r)
		default:
			b.WriteByte('_')
		}
	}
	return b.String()
}

func isByte(t types.Type) bool {
	b, ok := t.Underlying().(*types.Basic)
	return ok && (b.Kind() == types.Uint8)
}

func isBigInt(t types.Type) bool {
	n, ok := t.(*types.Named)
	if !ok {
		return false
	}
	return n.Obj().Pkg() != nil && n.Obj().Pkg().Path() == "math/big" && n.Obj().Name() == "Int"
}

func isByteSeq(t types.Type) bool {
	switch u := t.Underlying().(type) {
	case *types.Slice:
		return isByte(u.Elem())
	case *types.Array:
		return isByte(u.Elem())
	case *types.Basic:
		return u.Info()&types.IsString != 0
	}
	return false
}

type StructInfo struct {
	Sort   string
	Fields []*types.Var
	Named  *types.Named
}

func (e *Engine) structSort(t types.Type) *StructInfo {
	st, ok := t.Underlying().(*types.Struct)
	if !ok {
		panic("structSort: not a struct: " + t.String())
	}
	key := types.TypeString(t, nil)
	if si, ok := e.structs[key]; ok {
		return si
	}
	var name string
	var named *types.Named
	if n, ok := t.(*types.Named); ok {
		named = n
		p := ""
		if n.Obj().Pkg() != nil {
			p = n.Obj().Pkg().Name()
		}
		name = "S_" + sanitize(p) + "_" + sanitize(n.Obj().Name())
		if n.TypeArgs() != nil && n.TypeArgs().Len() > 0 {
			name += fmt.Sprintf("_g%d", len(e.structs))
		}
	} else {
		name = fmt.Sprintf("S_anon%d", len(e.structs))
	}
	// uniqueness of sort names
	for _, o := range e.structs {
		if o.Sort == name {
			name = fmt.Sprintf("%s_%d", name, len(e.structs))
		}
	}
	si := &StructInfo{Sort: name, Named: named}
	e.structs[key] = si
	var fs []string
	for i := 0; i < st.NumFields(); i++ {
		f := st.Field(i)
		si.Fields = append(si.Fields, f)
		fs = append(fs, fmt.Sprintf("(%s %s)", si.acc(i), e.sortOf(f.Type())))
	}
	var text string
	if len(fs) == 0 {
		text = fmt.Sprintf("(declare-datatypes ((%s 0)) (((mk_%s))))", name, name)
	} else {
		text = fmt.Sprintf("(declare-datatypes ((%s 0)) (((mk_%s %s))))", name, name, strings.Join(fs, " "))
	}
	e.syms.add(name, text)
	e.syms.alias("mk_"+name, name)
	for i := range si.Fields {
		e.syms.alias(si.acc(i), name)
	}
	return si
}

func (si *StructInfo) acc(i int) string {
	return fmt.Sprintf("f_%s_%s", si.Sort, sanitize(si.Fields[i].Name()))
}

func (si *StructInfo) fieldIndex(name string) int {
	for i, f := range si.Fields {
		if f.Name() == name {
			return i
		}
	}
	return -1
}

// sortOf maps a Go type to its SMT sort.
func (e *Engine) sortOf(t types.Type) string {
	if isBigInt(t) {
		return "Int"
	}
	switch u := t.Underlying().(type) {
	case *types.Basic:
		switch {
		case u.Info()&types.IsBoolean != 0:
			return "Bool"
		case u.Info()&types.IsInteger != 0:
			return "Int"
		case u.Info()&types.IsString != 0:
			return "(Seq Int)"
		case u.Info()&types.IsFloat != 0:
			return "Real"
		case u.Kind() == types.UnsafePointer:
			return "Int"
		case u.Kind() == types.UntypedNil:
			return "Int"
		}
		return "Int"
	case *types.Pointer, *types.Map, *types.Interface, *types.Signature, *types.Chan:
		return "Int"
	case *types.Slice:
		if isByte(u.Elem()) {
			return "(Seq Int)"
		}
		return "Slice"
	case *types.Array:
		if isByte(u.Elem()) {
			return "(Seq Int)"
		}
		return fmt.Sprintf("(Array Int %s)", e.sortOf(u.Elem()))
	case *types.Struct:
		return e.structSort(t).Sort
	case *types.Tuple:
		return "Int"
	case *types.TypeParam:
		return "Int"
	}
	return "Int"
}

func sortKey(sort string) string { return sanitize(strings.ReplaceAll(sort, " ", "_")) }

// intRange returns lo, hi for integer types (as decimal strings), ok=false otherwise.
func intRange(t types.Type) (string, string, bool) {
	b, ok := t.Underlying().(*types.Basic)
	if !ok || b.Info()&types.IsInteger == 0 {
		return "", "", false
	}
	switch b.Kind() {
	case types.Int8:
		return "(- 128)", "127", true
	case types.Int16:
		return "(- 32768)", "32767", true
	case types.Int32:
		return "(- 2147483648)", "2147483647", true
	case types.Int, types.Int64:
		return "(- 9223372036854775808)", "9223372036854775807", true
	case types.Uint8:
		return "0", "255", true
	case types.Uint16:
		return "0", "65535", true
	case types.Uint32:
		return "0", "4294967295", true
	case types.Uint, types.Uint64, types.Uintptr:
		return "0", "18446744073709551615", true
	}
	return "", "", false
}

func intBits(t types.Type) (bits int, signed bool) {
	b, ok := t.Underlying().(*types.Basic)
	if !ok {
		return 64, true
	}
	switch b.Kind() {
	case types.Int8:
		return 8, true
	case types.Int16:
		return 16, true
	case types.Int32:
		return 32, true
	case types.Int, types.Int64:
		return 64, true
	case types.Uint8:
		return 8, false
	case types.Uint16:
		return 16, false
	case types.Uint32:
		return 32, false
	}
	return 64, false
}

func pow2(n int) string {
	// decimal string of 2^n
	digits := []int{1}
	for i := 0; i < n; i++ {
		carry := 0
		for j := range digits {
			v := digits[j]*2 + carry
			digits[j] = v % 10
			carry = v / 10
		}
		if carry > 0 {
			digits = append(digits, carry)
		}
	}
	var b strings.Builder
	for i := len(digits) - 1; i >= 0; i-- {
		b.WriteByte(byte('0' + digits[i]))
	}
	return b.String()
}

func smtInt(s string) string {
	// decimal possibly negative -> SMT literal
	if strings.HasPrefix(s, "-") {
		return "(- " + s[1:] + ")"
	}
	return s
}

func and(ts ...string) string {
	var out []string
	for _, t := range ts {
		if t == "true" || t == "" {
			continue
		}
		if t == "false" {
			return "false"
		}
		out = append(out, t)
	}
	switch len(out) {
	case 0:
		return "true"
	case 1:
		return out[0]
	}
	return "(and " + strings.Join(out, " ") + ")"
}

func or(ts ...string) string {
	var out []string
	for _, t := range ts {
		if t == "false" || t == "" {
			continue
		}
		if t == "true" {
			return "true"
		}
		out = append(out, t)
	}
	switch len(out) {
	case 0:
		return "false"
	case 1:
		return out[0]
	}
	return "(or " + strings.Join(out, " ") + ")"
}

func not(t string) string {
	switch t {
	case "true":
		return "false"
	case "false":
		return "true"
	}
	if strings.HasPrefix(t, "(not ") && balanced(t[5:len(t)-1]) {
		return t[5 : len(t)-1]
	}
	return "(not " + t + ")"
}

func balanced(s string) bool {
	d := 0
	for _, c := range s {
		if c == '(' {
			d++
		} else if c == ')' {
			d--
			if d < 0 {
				return false
			}
		}
	}
	return d == 0
}

func implies(a, b string) string {
	if a == "true" {
		return b
	}
	if b == "true" || a == "false" {
		return "true"
	}
	return "(=> " + a + " " + b + ")"
}

func ite(c, a, b string) string {
	if a == b {
		return a
	}
	if c == "true" {
		return a
	}
	if c == "false" {
		return b
	}
	return "(ite " + c + " " + a + " " + b + ")"
}

func eq(a, b string) string {
	if a == b {
		return "true"
	}
	return "(= " + a + " " + b + ")"
}

func app(f string, args ...string) string {
	if len(args) == 0 {
		return f
	}
	return "(" + f + " " + strings.Join(args, " ") + ")"
}

func seqLit(s string) string {
	if len(s) == 0 {
		return "(as seq.empty (Seq Int))"
	}
	if len(s) == 1 {
		return fmt.Sprintf("(seq.unit %d)", s[0])
	}
	var parts []string
	for i := 0; i < len(s); i++ {
		parts = append(parts, fmt.Sprintf("(seq.unit %d)", s[i]))
	}
	return "(seq.++ " + strings.Join(parts, " ") + ")"
}
