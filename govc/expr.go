package main

// Symbolic evaluation of Go expressions (typed AST) with panic obligations.

import (
	"fmt"
	"go/ast"
	"go/constant"
	"go/token"
	"go/types"
	"strings"
)

func (fr *Frame) constVal(tv types.TypeAndValue) *Val {
	t := tv.Type
	v := tv.Value
	switch v.Kind() {
	case constant.Bool:
		if constant.BoolVal(v) {
			return &Val{T: t, S: "true", Const: v}
		}
		return &Val{T: t, S: "false", Const: v}
	case constant.String:
		return &Val{T: t, S: seqLit(constant.StringVal(v)), Const: v}
	case constant.Int:
		return &Val{T: t, S: smtInt(v.ExactString()), Const: v}
	case constant.Float:
		if b, ok := t.Underlying().(*types.Basic); ok && b.Info()&types.IsInteger != 0 {
			if iv := constant.ToInt(v); iv.Kind() == constant.Int {
				return &Val{T: t, S: smtInt(iv.ExactString()), Const: v}
			}
		}
		f, _ := constant.Float64Val(v)
		s := fmt.Sprintf("%f", f)
		if strings.HasPrefix(s, "-") {
			s = "(- " + s[1:] + ")"
		}
		return &Val{T: t, S: s, Const: v}
	}
	return &Val{T: t, S: "0", Const: v}
}

func (fr *Frame) eval(s *State, e ast.Expr) *Val {
	vs := fr.evalMulti(s, e)
	if len(vs) == 0 {
		return &Val{T: types.Typ[types.Int], S: "0"}
	}
	return vs[0]
}

// evalMulti evaluates an expression that may yield several values (calls, comma-ok forms are handled by the callers).
func (fr *Frame) evalMulti(s *State, e ast.Expr) []*Val {
	if tv, ok := fr.info.Types[e]; ok && tv.Value != nil {
		return []*Val{fr.constVal(tv)}
	}
	switch x := e.(type) {
	case *ast.ParenExpr:
		return fr.evalMulti(s, x.X)
	case *ast.CallExpr:
		return fr.evalCall(s, x)
	}
	return []*Val{fr.eval1(s, e)}
}

func (fr *Frame) havocExpr(s *State, e ast.Expr, what string) *Val {
	fr.imprecise(e.Pos(), what)
	return fr.freshVal(s, fr.typeOf(e), "hv")
}

func (fr *Frame) eval1(s *State, e ast.Expr) *Val {
	switch x := e.(type) {
	case *ast.Ident:
		return fr.evalIdent(s, x)
	case *ast.BasicLit:
		// should have been a constant
		return fr.havocExpr(s, e, "literal")
	case *ast.SelectorExpr:
		return fr.evalSelector(s, x)
	case *ast.StarExpr:
		p := fr.eval(s, x.X)
		return fr.deref(s, p, x.Pos())
	case *ast.UnaryExpr:
		return fr.evalUnary(s, x)
	case *ast.BinaryExpr:
		return fr.evalBinary(s, x)
	case *ast.IndexExpr:
		return fr.evalIndex(s, x, false)[0]
	case *ast.SliceExpr:
		return fr.evalSliceExpr(s, x)
	case *ast.CompositeLit:
		return fr.evalCompositeLit(s, x)
	case *ast.FuncLit:
		return &Val{T: fr.typeOf(e), S: "1", Fn: &Closure{Lit: x, Frame: fr}}
	case *ast.TypeAssertExpr:
		return fr.evalTypeAssert(s, x, false)[0]
	case *ast.KeyValueExpr:
		return fr.eval(s, x.Value)
	}
	fr.unsupported(e.Pos(), fmt.Sprintf("expression %T", e))
	return fr.freshVal(s, fr.typeOf(e), "unsup")
}

func (fr *Frame) evalIdent(s *State, id *ast.Ident) *Val {
	obj := fr.info.ObjectOf(id)
	if obj == nil {
		if id.Name == "_" {
			return &Val{T: types.Typ[types.Int], S: "0"}
		}
		return fr.havocExpr(s, id, "unresolved identifier "+id.Name)
	}
	switch o := obj.(type) {
	case *types.Nil:
		t := fr.typeOf(id)
		if t == nil || t == types.Typ[types.UntypedNil] {
			return &Val{T: types.Typ[types.UntypedNil], S: "0"}
		}
		return &Val{T: t, S: fr.eng.zeroOf(t)}
	case *types.Var:
		return fr.readVar(s, o, id.Pos())
	case *types.Func:
		return &Val{T: o.Type(), S: fmt.Sprintf("%d", 1000000+fr.eng.typeID(o.Type()))}
	case *types.Const:
		return fr.constVal(types.TypeAndValue{Type: o.Type(), Value: o.Val()})
	}
	return fr.havocExpr(s, id, "identifier kind")
}

func (fr *Frame) readVar(s *State, o *types.Var, pos token.Pos) *Val {
	if v, ok := s.vars[o]; ok {
		return v
	}
	if ref, ok := s.boxed[o]; ok {
		hn, hs := fr.eng.ptrHeap(o.Type())
		return fr.readFact(s, &Val{T: o.Type(), S: fmt.Sprintf("(select %s %s)", s.heap(hn, hs), ref)})
	}
	if o.Pkg() != nil && o.Parent() == o.Pkg().Scope() {
		hn, hs := fr.eng.globalHeap(o)
		fr.initConstGlobal(s, o, hn, hs)
		return fr.readFact(s, &Val{T: o.Type(), S: s.heap(hn, hs)})
	}
	// variable not initialised on this path (e.g. declared in a branch that was merged away): havoc
	v := fr.freshVal(s, o.Type(), o.Name())
	s.vars[o] = v
	return v
}

// initConstGlobal: a package-level variable that is never assigned (nor has its address taken) in the
// loaded packages keeps the value of its initializer; for heap-free types the initializer is evaluated.
func (fr *Frame) initConstGlobal(s *State, o *types.Var, hn, hs string) {
	if !strings.HasPrefix(hn, "GC:") {
		return
	}
	if fr.vc.globalsDone == nil {
		fr.vc.globalsDone = map[types.Object]bool{}
	}
	if fr.vc.globalsDone[o] {
		return
	}
	fr.vc.globalsDone[o] = true
	gi, ok := fr.eng.globalInit[o]
	if ok && gi.pkg.TypesInfo != nil {
		// sentinel errors: var ErrX = errors.New(...) / fmt.Errorf(...) — non-nil and pairwise distinct
		if call, isCall := ast.Unparen(gi.expr).(*ast.CallExpr); isCall {
			if sel, isSel := ast.Unparen(call.Fun).(*ast.SelectorExpr); isSel {
				if f, isF := gi.pkg.TypesInfo.Uses[sel.Sel].(*types.Func); isF {
					if n := fullName(f); n == "errors.New" || n == "fmt.Errorf" {
						if _, declared := fr.eng.syms.syms["errid"]; !declared {
							fr.eng.syms.add("errid", "(declare-fun errid (Int) Int)")
						}
						g := s.heap(hn, hs)
						fr.vc.facts = append(fr.vc.facts, fmt.Sprintf("(and (not (= %s 0)) (= (errid %s) %d))", g, g, fr.eng.typeID(types.NewPointer(types.NewNamed(types.NewTypeName(0, o.Pkg(), "sentinel$"+o.Name(), nil), types.Typ[types.Int], nil)))))
						return
					}
				}
			}
		}
	}
	if !ok || !heapFree(o.Type()) || gi.pkg.TypesInfo == nil {
		return
	}
	if !pureInit(gi.expr, gi.pkg.TypesInfo) {
		return
	}
	sub := &Frame{eng: fr.eng, vc: fr.vc, info: gi.pkg.TypesInfo, pkg: gi.pkg.Types, depth: maxInlineDepth, parent: nil}
	tmp := s.clone()
	tmp.g = "true"
	nfacts := len(fr.vc.facts)
	nobl := len(fr.vc.obls)
	v := sub.eval(tmp, gi.expr)
	// initializers are evaluated once at program start: no obligations, facts are unconditional
	fr.vc.obls = fr.vc.obls[:nobl]
	_ = nfacts
	fr.vc.facts = append(fr.vc.facts, eq(s.heap(hn, hs), v.S))
}

func heapFree(t types.Type) bool {
	switch u := t.Underlying().(type) {
	case *types.Basic:
		return true
	case *types.Array:
		return heapFree(u.Elem())
	case *types.Struct:
		for i := 0; i < u.NumFields(); i++ {
			if !heapFree(u.Field(i).Type()) {
				return false
			}
		}
		return !isBigInt(t)
	}
	return false
}

// pureInit: literals, constants, composite literals and conversions only.
func pureInit(e ast.Expr, info *types.Info) bool {
	ok := true
	ast.Inspect(e, func(n ast.Node) bool {
		switch x := n.(type) {
		case *ast.CallExpr:
			if tv, found := info.Types[x.Fun]; !found || !tv.IsType() {
				if tv2, f2 := info.Types[x]; !f2 || tv2.Value == nil {
					ok = false
				}
			}
		case *ast.Ident:
			if o, isVar := info.Uses[x].(*types.Var); isVar && o != nil {
				ok = false
			}
		case *ast.FuncLit, *ast.UnaryExpr:
			if u, isU := x.(*ast.UnaryExpr); isU && u.Op != token.AND && u.Op != token.ARROW {
				return true
			}
			ok = false
		}
		return ok
	})
	return ok
}

func (fr *Frame) writeVar(s *State, o *types.Var, v *Val) {
	v = fr.convertTo(s, v, o.Type())
	if fr.isBoxed(o) {
		ref, ok := s.boxed[o]
		if !ok {
			ref = s.alloc()
			s.boxed[o] = ref
			fr.initObject(s, o.Type(), ref)
		}
		hn, hs := fr.eng.ptrHeap(o.Type())
		s.setHeap(hn, hs, fmt.Sprintf("(store %s %s %s)", s.heap(hn, hs), ref, v.S))
		return
	}
	if o.Pkg() != nil && o.Parent() == o.Pkg().Scope() {
		hn, hs := fr.eng.globalHeap(o)
		s.setHeap(hn, hs, v.S)
		return
	}
	if v.Fn == nil && len(v.S) > 48 {
		v = &Val{T: v.T, S: fr.vc.define(o.Name(), fr.eng.sortOf(o.Type()), v.S), Const: v.Const, Dyn: v.Dyn}
	}
	s.vars[o] = v
}

func (fr *Frame) isBoxed(o types.Object) bool {
	for f := fr; f != nil; f = f.parent {
		if f.boxedSet[o] {
			return true
		}
	}
	return false
}

func (fr *Frame) nilCheck(s *State, p *Val, pos token.Pos) {
	if fr.vc == nil {
		return
	}
	fr.vc.oblige(s, "nil", not(eq(p.S, "0")), pos, "nil pointer dereference")
}

func (fr *Frame) deref(s *State, p *Val, pos token.Pos) *Val {
	pt, ok := p.T.Underlying().(*types.Pointer)
	if !ok {
		fr.unsupported(pos, "deref of non-pointer")
		return fr.freshVal(s, types.Typ[types.Int], "unsup")
	}
	fr.nilCheck(s, p, pos)
	hn, hs := fr.eng.ptrHeap(pt.Elem())
	return fr.readFact(s, &Val{T: pt.Elem(), S: fmt.Sprintf("(select %s %s)", s.heap(hn, hs), p.S)})
}

// fieldPath resolves a selection to (base value, index path).
func (fr *Frame) selectField(s *State, base *Val, path []int, pos token.Pos) *Val {
	cur := base
	for _, idx := range path {
		if _, ok := cur.T.Underlying().(*types.Pointer); ok {
			cur = fr.deref(s, cur, pos)
		}
		if _, ok := cur.T.Underlying().(*types.Struct); !ok {
			fr.unsupported(pos, "field selection on "+cur.T.String())
			return fr.freshVal(s, types.Typ[types.Int], "unsup")
		}
		cur = fr.eng.getField(cur, idx)
	}
	return fr.readFact(s, cur)
}

func (fr *Frame) evalSelector(s *State, x *ast.SelectorExpr) *Val {
	if sel, ok := fr.info.Selections[x]; ok {
		switch sel.Kind() {
		case types.FieldVal:
			base := fr.eval(s, x.X)
			return fr.selectField(s, base, sel.Index(), x.Pos())
		case types.MethodVal, types.MethodExpr:
			// method value used as a function value: opaque
			return fr.havocExpr(s, x, "method value")
		}
	}
	// qualified identifier
	obj := fr.info.Uses[x.Sel]
	switch o := obj.(type) {
	case *types.Var:
		return fr.readVar(s, o, x.Pos())
	case *types.Const:
		return fr.constVal(types.TypeAndValue{Type: o.Type(), Value: o.Val()})
	case *types.Func:
		return &Val{T: o.Type(), S: fmt.Sprintf("%d", 1000000+fr.eng.typeID(o.Type()))}
	}
	// packages that failed to type-check (cgo): try to resolve a field by name
	if base := fr.typeOf(x.X); base != nil {
		bt := base
		if p, ok := bt.Underlying().(*types.Pointer); ok {
			bt = p.Elem()
		}
		if st, ok := bt.Underlying().(*types.Struct); ok {
			for i := 0; i < st.NumFields(); i++ {
				if st.Field(i).Name() == x.Sel.Name {
					return fr.selectField(s, fr.eval(s, x.X), []int{i}, x.Pos())
				}
			}
		}
	}
	return fr.havocExpr(s, x, "unresolved selector "+x.Sel.Name)
}

func (fr *Frame) evalUnary(s *State, x *ast.UnaryExpr) *Val {
	t := fr.typeOf(x)
	switch x.Op {
	case token.NOT:
		v := fr.eval(s, x.X)
		return &Val{T: t, S: not(v.S)}
	case token.SUB:
		v := fr.eval(s, x.X)
		r := &Val{T: t, S: "(- " + v.S + ")"}
		if _, ok := t.Underlying().(*types.Basic); ok && t.Underlying().(*types.Basic).Info()&types.IsInteger != 0 {
			return fr.intResult(s, r, x.Pos(), "negation")
		}
		return r
	case token.ADD:
		return fr.eval(s, x.X)
	case token.XOR:
		v := fr.eval(s, x.X)
		bits, signed := intBits(t)
		if signed {
			return &Val{T: t, S: "(- (- " + v.S + ") 1)"}
		}
		return &Val{T: t, S: "(- " + pow2(bits) + " 1 " + v.S + ")"}
	case token.AND:
		return fr.addrOf(s, x.X)
	case token.ARROW:
		// sequential use of a result channel: the receive yields the last value sent on it
		ch := fr.eval(s, x.X)
		if ct, ok := fr.typeOf(x.X).Underlying().(*types.Chan); ok && ch != nil {
			hn, hs := fr.eng.chanHeap(ct.Elem())
			fr.eng.assumptions["a channel receive yields the last value sent on that channel (sequential use of one-slot result channels; no queueing, no concurrent senders)"] = true
			return &Val{T: ct.Elem(), S: fr.vc.define("rcv", fr.eng.sortOf(ct.Elem()), fmt.Sprintf("(select %s %s)", s.heap(hn, hs), ch.S))}
		}
		fr.unsupported(x.Pos(), "channel receive")
		return fr.freshVal(s, t, "unsup")
	}
	fr.unsupported(x.Pos(), "unary "+x.Op.String())
	return fr.freshVal(s, t, "unsup")
}

// addrOf evaluates &e.
func (fr *Frame) addrOf(s *State, e ast.Expr) *Val {
	pt := types.NewPointer(fr.typeOf(e))
	switch x := e.(type) {
	case *ast.ParenExpr:
		return fr.addrOf(s, x.X)
	case *ast.CompositeLit:
		v := fr.evalCompositeLit(s, x)
		ref := s.alloc()
		fr.initObject(s, v.T, ref)
		hn, hs := fr.eng.ptrHeap(v.T)
		s.setHeap(hn, hs, fmt.Sprintf("(store %s %s %s)", s.heap(hn, hs), ref, v.S))
		return &Val{T: types.NewPointer(v.T), S: ref}
	case *ast.Ident:
		if o, ok := fr.info.ObjectOf(x).(*types.Var); ok {
			if fr.isBoxed(o) {
				ref, ok := s.boxed[o]
				if !ok {
					// first use: allocate the box with the current (or zero) value
					var cur *Val
					if v, ok := s.vars[o]; ok {
						cur = v
						delete(s.vars, o)
					} else {
						cur = &Val{T: o.Type(), S: fr.eng.zeroOf(o.Type())}
					}
					ref = s.alloc()
					s.boxed[o] = ref
					fr.initObject(s, o.Type(), ref)
					hn, hs := fr.eng.ptrHeap(o.Type())
					s.setHeap(hn, hs, fmt.Sprintf("(store %s %s %s)", s.heap(hn, hs), ref, cur.S))
				}
				return &Val{T: pt, S: ref}
			}
			if o.Pkg() != nil && o.Parent() == o.Pkg().Scope() {
				// address of a package-level variable: opaque but stable, non-nil
				fr.imprecise(e.Pos(), "address of global")
				v := fr.freshVal(s, pt, "gaddr")
				s.assume(not(eq(v.S, "0")))
				return v
			}
		}
	case *ast.StarExpr:
		return fr.eval(s, x.X)
	}
	// &x.f where f is a big.Int value: a temporary reference holding the field's current value; after the
	// enclosing call the (possibly updated) value is written back to the field
	if sel, ok := ast.Unparen(e).(*ast.SelectorExpr); ok && isBigInt(fr.typeOf(e)) {
		if _, isField := fr.info.Selections[sel]; isField {
			for _, t := range fr.bigTemps {
				if types.ExprString(t.expr) == types.ExprString(sel) {
					return &Val{T: pt, S: t.ref} // the same field: the same temporary (aliasing within a call)
				}
			}
			cur := fr.eval(s, sel)
			ref := s.alloc()
			s.setHeap("H:big", "(Array Int Int)", fmt.Sprintf("(store %s %s %s)", s.heap("H:big", "(Array Int Int)"), ref, cur.S))
			fr.bigTemps = append(fr.bigTemps, bigTemp{ref: ref, expr: sel})
			fr.eng.assumptions["&x.f for a big.Int field f is a temporary reference that is written back after the enclosing call; a pointer kept longer sees the value at the time it was taken"] = true
			return &Val{T: pt, S: ref}
		}
	}
	// interior pointers (&x.f, &a[i]) are outside the heap model
	fr.imprecise(e.Pos(), "interior pointer")
	fr.vc.eng.assumptions["interior pointers (&x.f, &a[i]) are modelled as fresh non-nil references; writes through them are not tracked"] = true
	v := fr.freshVal(s, pt, "iptr")
	s.assume(not(eq(v.S, "0")))
	return v
}

func isIntType(t types.Type) bool {
	if t == nil {
		return false
	}
	b, ok := t.Underlying().(*types.Basic)
	return ok && b.Info()&types.IsInteger != 0
}

func isUntyped(t types.Type) bool {
	b, ok := t.(*types.Basic)
	return ok && b.Info()&types.IsUntyped != 0
}

// intResult applies the machine-integer semantics to a mathematical result: either a no-overflow
// obligation (default) or wrap-around (functions declared `wrapping`).
func (fr *Frame) intResult(s *State, r *Val, pos token.Pos, what string) *Val {
	t := r.T
	lo, hi, ok := intRange(t)
	if !ok || isUntyped(t) {
		return r
	}
	name := fr.vc.small("ar", "Int", r.S)
	if fr.vc.wrapping {
		bits, signed := intBits(t)
		m := pow2(bits)
		var w string
		if signed {
			h := pow2(bits - 1)
			w = fmt.Sprintf("(- (mod (+ %s %s) %s) %s)", name, h, m, h)
		} else {
			w = fmt.Sprintf("(mod %s %s)", name, m)
		}
		return &Val{T: t, S: fr.vc.define("wr", "Int", w)}
	}
	fr.vc.oblige(s, "ovf", fmt.Sprintf("(and (<= %s %s) (<= %s %s))", lo, name, name, hi), pos, "integer overflow in "+what)
	return &Val{T: t, S: name}
}

func (fr *Frame) evalBinary(s *State, x *ast.BinaryExpr) *Val {
	t := fr.typeOf(x)
	switch x.Op {
	case token.LAND, token.LOR:
		l := fr.eval(s, x.X)
		var cond string
		if x.Op == token.LAND {
			cond = l.S
		} else {
			cond = not(l.S)
		}
		// evaluate the right operand only under cond
		sr := s.fork(cond)
		r := fr.eval(sr, x.Y)
		so := s.fork(not(cond))
		m := mergeStates(sr, so)
		// the merged guard is equivalent to s.g; keep s.g for readability
		g := s.g
		*s = *m
		s.g = g
		if x.Op == token.LAND {
			return &Val{T: t, S: fr.vc.small("and", "Bool", and(l.S, r.S))}
		}
		return &Val{T: t, S: fr.vc.small("or", "Bool", or(l.S, r.S))}
	}
	l := fr.eval(s, x.X)
	r := fr.eval(s, x.Y)
	return fr.binop(s, x.Op, l, r, t, x.Pos())
}

func (fr *Frame) binop(s *State, op token.Token, l, r *Val, t types.Type, pos token.Pos) *Val {
	if t == nil {
		t = l.T
	}
	switch op {
	case token.EQL, token.NEQ:
		c := fr.eqVals(s, l, r)
		if op == token.NEQ {
			c = not(c)
		}
		return &Val{T: t, S: c}
	case token.LSS, token.LEQ, token.GTR, token.GEQ:
		ops := map[token.Token]string{token.LSS: "<", token.LEQ: "<=", token.GTR: ">", token.GEQ: ">="}
		if isByteSeq(l.T) {
			// string comparison: abstract total order
			return &Val{T: t, S: fmt.Sprintf("(%s (bcmp %s %s) 0)", ops[op], l.S, r.S)}
		}
		return &Val{T: t, S: fmt.Sprintf("(%s %s %s)", ops[op], l.S, r.S)}
	}
	// arithmetic
	if isByteSeq(l.T) && op == token.ADD {
		return &Val{T: t, S: fmt.Sprintf("(seq.++ %s %s)", l.S, r.S)}
	}
	if !isIntType(t) {
		// floats etc.
		switch op {
		case token.ADD:
			return &Val{T: t, S: fmt.Sprintf("(+ %s %s)", l.S, r.S)}
		case token.SUB:
			return &Val{T: t, S: fmt.Sprintf("(- %s %s)", l.S, r.S)}
		case token.MUL:
			return &Val{T: t, S: fmt.Sprintf("(* %s %s)", l.S, r.S)}
		case token.QUO:
			return &Val{T: t, S: fmt.Sprintf("(/ %s %s)", l.S, r.S)}
		}
		fr.unsupported(pos, "binary "+op.String()+" on "+t.String())
		return fr.freshVal(s, t, "unsup")
	}
	switch op {
	case token.ADD:
		return fr.intResult(s, &Val{T: t, S: fmt.Sprintf("(+ %s %s)", l.S, r.S)}, pos, "+")
	case token.SUB:
		return fr.intResult(s, &Val{T: t, S: fmt.Sprintf("(- %s %s)", l.S, r.S)}, pos, "-")
	case token.MUL:
		return fr.intResult(s, &Val{T: t, S: fmt.Sprintf("(* %s %s)", l.S, r.S)}, pos, "*")
	case token.QUO:
		fr.vc.oblige(s, "div", not(eq(r.S, "0")), pos, "division by zero")
		return fr.intResult(s, &Val{T: t, S: fmt.Sprintf("(tdiv %s %s)", l.S, r.S)}, pos, "/")
	case token.REM:
		fr.vc.oblige(s, "div", not(eq(r.S, "0")), pos, "division by zero")
		return &Val{T: t, S: fr.vc.small("rem", "Int", fmt.Sprintf("(tmod %s %s)", l.S, r.S))}
	case token.SHL, token.SHR:
		if r.Const != nil {
			if n, ok := constant.Int64Val(constant.ToInt(r.Const)); ok && n >= 0 && n < 128 {
				if op == token.SHL {
					return fr.shlResult(s, &Val{T: t, S: fmt.Sprintf("(* %s %s)", l.S, pow2(int(n)))}, pos)
				}
				return &Val{T: t, S: fmt.Sprintf("(div %s %s)", l.S, pow2(int(n)))}
			}
		}
		f := "u_shl"
		if op == token.SHR {
			f = "u_shr"
		}
		v := &Val{T: t, S: fr.vc.define("sh", "Int", fmt.Sprintf("(%s %s %s)", f, l.S, r.S))}
		s.assume(fr.eng.typeFact(v, ""))
		if op == token.SHR {
			s.assume(fmt.Sprintf("(=> (>= %s 0) (and (<= 0 %s) (<= %s %s)))", l.S, v.S, v.S, l.S))
		}
		return v
	case token.AND, token.OR, token.XOR, token.AND_NOT:
		return fr.bitop(s, op, l, r, t)
	}
	fr.unsupported(pos, "binary "+op.String())
	return fr.freshVal(s, t, "unsup")
}

// shifts left discard high bits silently in Go; they are treated as wrapping (no obligation).
func (fr *Frame) shlResult(s *State, r *Val, pos token.Pos) *Val {
	bits, signed := intBits(r.T)
	if isUntyped(r.T) {
		return r
	}
	m := pow2(bits)
	if signed {
		h := pow2(bits - 1)
		return &Val{T: r.T, S: fr.vc.define("shl", "Int", fmt.Sprintf("(- (mod (+ %s %s) %s) %s)", r.S, h, m, h))}
	}
	return &Val{T: r.T, S: fr.vc.define("shl", "Int", fmt.Sprintf("(mod %s %s)", r.S, m))}
}

func isPow2Minus1(c constant.Value) (int, bool) {
	if c == nil || c.Kind() != constant.Int {
		return 0, false
	}
	v, ok := constant.Uint64Val(c)
	if !ok {
		return 0, false
	}
	for n := 1; n <= 63; n++ {
		if v == (uint64(1)<<uint(n))-1 {
			return n, true
		}
	}
	return 0, false
}

func (fr *Frame) bitop(s *State, op token.Token, l, r *Val, t types.Type) *Val {
	if op == token.AND {
		if n, ok := isPow2Minus1(r.Const); ok {
			return &Val{T: t, S: fmt.Sprintf("(mod %s %s)", l.S, pow2(n))}
		}
		if n, ok := isPow2Minus1(l.Const); ok {
			return &Val{T: t, S: fmt.Sprintf("(mod %s %s)", r.S, pow2(n))}
		}
	}
	f := map[token.Token]string{token.AND: "u_and", token.OR: "u_or", token.XOR: "u_xor", token.AND_NOT: "u_andnot"}[op]
	v := &Val{T: t, S: fr.vc.define("bit", "Int", fmt.Sprintf("(%s %s %s)", f, l.S, r.S))}
	s.assume(fr.eng.typeFact(v, ""))
	switch op {
	case token.AND:
		s.assume(fmt.Sprintf("(=> (and (>= %s 0) (>= %s 0)) (and (<= 0 %s) (<= %s %s) (<= %s %s)))", l.S, r.S, v.S, v.S, l.S, v.S, r.S))
	case token.OR:
		s.assume(fmt.Sprintf("(=> (and (>= %s 0) (>= %s 0)) (and (>= %s %s) (>= %s %s) (<= %s (+ %s %s))))", l.S, r.S, v.S, l.S, v.S, r.S, v.S, l.S, r.S))
	}
	return v
}

// eqVals builds the equality of two Go values.
func (fr *Frame) eqVals(s *State, l, r *Val) string {
	lt, rt := l.T, r.T
	isNil := func(t types.Type) bool {
		b, ok := t.(*types.Basic)
		return ok && b.Kind() == types.UntypedNil
	}
	if isNil(rt) {
		return fr.isNilTerm(l)
	}
	if isNil(lt) {
		return fr.isNilTerm(r)
	}
	_, li := lt.Underlying().(*types.Interface)
	_, ri := rt.Underlying().(*types.Interface)
	if li && !ri {
		r = fr.toIface(s, r, lt)
	} else if ri && !li {
		l = fr.toIface(s, l, rt)
	}
	return eq(l.S, r.S)
}

func (fr *Frame) isNilTerm(v *Val) string {
	switch u := v.T.Underlying().(type) {
	case *types.Slice:
		if isByte(u.Elem()) {
			fr.eng.assumptions["nil and empty byte slices are identified (b == nil is read as len(b) == 0)"] = true
			return fmt.Sprintf("(= (seq.len %s) 0)", v.S)
		}
		return fmt.Sprintf("(= (sl_ref %s) 0)", v.S)
	}
	return eq(v.S, "0")
}

// ---------------------------------------------------------------------------
// indexing and slicing

func (fr *Frame) lenOf(s *State, v *Val) string {
	switch u := v.T.Underlying().(type) {
	case *types.Slice:
		if isByte(u.Elem()) {
			return "(seq.len " + v.S + ")"
		}
		return "(sl_len " + v.S + ")"
	case *types.Array:
		return fmt.Sprintf("%d", u.Len())
	case *types.Basic:
		return "(seq.len " + v.S + ")"
	case *types.Map:
		_, _, dn, ds := fr.eng.mapHeaps(u)
		_ = dn
		_ = ds
		return fr.mapLen(s, v, u)
	case *types.Pointer:
		if a, ok := u.Elem().Underlying().(*types.Array); ok {
			return fmt.Sprintf("%d", a.Len())
		}
	}
	return "0"
}

// mapLen: abstract cardinality of the map's domain; 0 for the nil map.
func (fr *Frame) mapLen(s *State, v *Val, m *types.Map) string {
	_, _, dn, ds := fr.eng.mapHeaps(m)
	ks := fr.eng.sortOf(m.Key())
	fn := "card_" + sortKey(ks)
	if _, ok := fr.eng.syms.syms[fn]; !ok {
		fr.eng.syms.add(fn, fmt.Sprintf("(declare-fun %s ((Array %s Bool)) Int)\n(assert (forall ((d (Array %s Bool)) (k %s)) (! (=> (<= (%s d) 0) (not (select d k))) :pattern ((%s d) (select d k)))))", fn, ks, ks, ks, fn, fn))
	}
	t := fmt.Sprintf("(%s (select %s %s))", fn, s.heap(dn, ds), v.S)
	n := fr.vc.define("maplen", "Int", t)
	s.assume(fmt.Sprintf("(>= %s 0)", n))
	return n
}

// evalIndex evaluates x[i]; with commaOk it returns (value, ok) for maps.
func (fr *Frame) evalIndex(s *State, x *ast.IndexExpr, commaOk bool) []*Val {
	bt := fr.typeOf(x.X)
	if bt == nil {
		return []*Val{fr.havocExpr(s, x, "index on untyped"), {T: types.Typ[types.Bool], S: "true"}}
	}
	if _, isSig := bt.Underlying().(*types.Signature); isSig {
		// generic instantiation
		return []*Val{fr.eval(s, x.X)}
	}
	base := fr.eval(s, x.X)
	if m, ok := bt.Underlying().(*types.Map); ok {
		k := fr.convertTo(s, fr.eval(s, x.Index), m.Key())
		fr.mapKeyCheck(s, m, k, x.Pos())
		vn, vs, dn, ds := fr.eng.mapHeaps(m)
		in := fr.vc.small("in", "Bool", fmt.Sprintf("(select (select %s %s) %s)", s.heap(dn, ds), base.S, k.S))
		val := fmt.Sprintf("(select (select %s %s) %s)", s.heap(vn, vs), base.S, k.S)
		v := &Val{T: m.Elem(), S: fr.vc.small("mv", fr.eng.sortOf(m.Elem()), ite(in, val, fr.eng.zeroOf(m.Elem())))}
		v = fr.readFact(s, v)
		return []*Val{v, {T: types.Typ[types.Bool], S: in}}
	}
	idx := fr.eval(s, x.Index)
	return []*Val{fr.indexVal(s, base, idx, x.Pos())}
}

func (fr *Frame) indexVal(s *State, base, idx *Val, pos token.Pos) *Val {
	if p, ok := base.T.Underlying().(*types.Pointer); ok {
		if _, ok := p.Elem().Underlying().(*types.Array); ok {
			base = fr.deref(s, base, pos)
		}
	}
	switch u := base.T.Underlying().(type) {
	case *types.Slice:
		ln := fr.lenOf(s, base)
		fr.vc.oblige(s, "idx", fmt.Sprintf("(and (<= 0 %s) (< %s %s))", idx.S, idx.S, ln), pos, "index out of range")
		if isByte(u.Elem()) {
			return fr.readFact(s, &Val{T: u.Elem(), S: fmt.Sprintf("(seq.nth %s %s)", base.S, idx.S)})
		}
		hn, hs := fr.eng.elemHeap(u.Elem())
		return fr.readFact(s, &Val{T: u.Elem(), S: fmt.Sprintf("(select (select %s (sl_ref %s)) %s)", s.heap(hn, hs), base.S, elemAddr(base, idx.S))})
	case *types.Array:
		if idx.Const == nil {
			fr.vc.oblige(s, "idx", fmt.Sprintf("(and (<= 0 %s) (< %s %d))", idx.S, idx.S, u.Len()), pos, "index out of range")
		}
		if isByte(u.Elem()) {
			return fr.readFact(s, &Val{T: u.Elem(), S: fmt.Sprintf("(seq.nth %s %s)", base.S, idx.S)})
		}
		return fr.readFact(s, &Val{T: u.Elem(), S: fmt.Sprintf("(select %s %s)", base.S, idx.S)})
	case *types.Basic:
		fr.vc.oblige(s, "idx", fmt.Sprintf("(and (<= 0 %s) (< %s (seq.len %s)))", idx.S, idx.S, base.S), pos, "index out of range")
		return fr.readFact(s, &Val{T: types.Typ[types.Uint8], S: fmt.Sprintf("(seq.nth %s %s)", base.S, idx.S)})
	}
	fr.unsupported(pos, "index on "+base.T.String())
	return fr.freshVal(s, types.Typ[types.Int], "unsup")
}

func (fr *Frame) evalSliceExpr(s *State, x *ast.SliceExpr) *Val {
	t := fr.typeOf(x)
	base := fr.eval(s, x.X)
	if p, ok := base.T.Underlying().(*types.Pointer); ok {
		if _, ok := p.Elem().Underlying().(*types.Array); ok {
			base = fr.deref(s, base, x.Pos())
		}
	}
	var lo, hi, max *Val
	if x.Low != nil {
		lo = fr.eval(s, x.Low)
	}
	if x.High != nil {
		hi = fr.eval(s, x.High)
	}
	if x.Max != nil {
		max = fr.eval(s, x.Max)
	}
	los := "0"
	if lo != nil {
		los = lo.S
	}
	if isByteSeq(base.T) {
		ln := "(seq.len " + base.S + ")"
		his := ln
		if hi != nil {
			his = hi.S
		}
		// NOTE: for []byte, slicing up to cap is legal Go; with value semantics only len is known.
		fr.vc.oblige(s, "slice", fmt.Sprintf("(and (<= 0 %s) (<= %s %s) (<= %s %s))", los, los, his, his, ln), x.Pos(), "slice bounds out of range")
		if lo == nil && hi == nil {
			return &Val{T: t, S: base.S}
		}
		return &Val{T: t, S: fr.vc.define("sub", "(Seq Int)", fmt.Sprintf("(seq.extract %s %s (- %s %s))", base.S, los, his, los))}
	}
	switch u := base.T.Underlying().(type) {
	case *types.Slice:
		his := "(sl_len " + base.S + ")"
		if hi != nil {
			his = hi.S
		}
		capS := "(sl_cap " + base.S + ")"
		maxs := capS
		if max != nil {
			maxs = max.S
		}
		fr.vc.oblige(s, "slice", fmt.Sprintf("(and (<= 0 %s) (<= %s %s) (<= %s %s) (<= %s %s))", los, los, his, his, maxs, maxs, capS), x.Pos(), "slice bounds out of range")
		r := fmt.Sprintf("(mk_Slice (sl_ref %s) (+ (sl_off %s) %s) (- %s %s) (- %s %s))", base.S, base.S, los, his, los, maxs, los)
		sub := &[2]string{"(sl_off " + base.S + ")", los}
		if base.Sub != nil {
			sub = &[2]string{base.Sub[0], fmt.Sprintf("(+ %s %s)", base.Sub[1], los)}
			if base.Sub[1] == "0" {
				sub[1] = los
			} else if los == "0" {
				sub[1] = base.Sub[1]
			}
		}
		return &Val{T: t, S: fr.vc.define("sl", "Slice", r), Sub: sub}
	case *types.Array:
		_ = u
		fr.imprecise(x.Pos(), "slicing an array value")
		return fr.freshVal(s, t, "arrsl")
	}
	fr.unsupported(x.Pos(), "slice expression on "+base.T.String())
	return fr.freshVal(s, t, "unsup")
}

// ---------------------------------------------------------------------------
// composite literals

func (fr *Frame) evalCompositeLit(s *State, x *ast.CompositeLit) *Val {
	t := fr.typeOf(x)
	if t == nil {
		fr.unsupported(x.Pos(), "untyped composite literal")
		return fr.freshVal(s, types.Typ[types.Int], "unsup")
	}
	switch u := t.Underlying().(type) {
	case *types.Struct:
		si := fr.eng.structSort(t)
		args := make([]string, len(si.Fields))
		for i, f := range si.Fields {
			args[i] = fr.eng.zeroOf(f.Type())
		}
		for i, el := range x.Elts {
			if kv, ok := el.(*ast.KeyValueExpr); ok {
				name := kv.Key.(*ast.Ident).Name
				idx := si.fieldIndex(name)
				if idx < 0 {
					fr.unsupported(kv.Pos(), "unknown field "+name)
					continue
				}
				v := fr.convertTo(s, fr.evalElt(s, kv.Value, si.Fields[idx].Type()), si.Fields[idx].Type())
				args[idx] = v.S
			} else {
				v := fr.convertTo(s, fr.evalElt(s, el, si.Fields[i].Type()), si.Fields[i].Type())
				args[i] = v.S
			}
		}
		if len(args) == 0 {
			return &Val{T: t, S: "mk_" + si.Sort}
		}
		return &Val{T: t, S: fr.vc.define("lit", si.Sort, app("mk_"+si.Sort, args...))}
	case *types.Slice:
		if isByte(u.Elem()) {
			var parts []string
			for _, el := range x.Elts {
				if _, ok := el.(*ast.KeyValueExpr); ok {
					fr.imprecise(x.Pos(), "keyed byte slice literal")
					return fr.freshVal(s, t, "lit")
				}
				parts = append(parts, "(seq.unit "+fr.eval(s, el).S+")")
			}
			switch len(parts) {
			case 0:
				return &Val{T: t, S: "(as seq.empty (Seq Int))"}
			case 1:
				return &Val{T: t, S: parts[0]}
			}
			return &Val{T: t, S: fr.vc.define("lit", "(Seq Int)", "(seq.++ "+strings.Join(parts, " ")+")")}
		}
		n := len(x.Elts)
		ref := s.alloc()
		hn, hs := fr.eng.elemHeap(u.Elem())
		arr := fmt.Sprintf("(select %s %s)", s.heap(hn, hs), ref)
		for i, el := range x.Elts {
			if _, ok := el.(*ast.KeyValueExpr); ok {
				fr.imprecise(x.Pos(), "keyed slice literal")
				return fr.freshVal(s, t, "lit")
			}
			v := fr.convertTo(s, fr.evalElt(s, el, u.Elem()), u.Elem())
			arr = fmt.Sprintf("(store %s %d %s)", arr, i, v.S)
		}
		s.setHeap(hn, hs, fmt.Sprintf("(store %s %s %s)", s.heap(hn, hs), ref, arr))
		return &Val{T: t, S: fmt.Sprintf("(mk_Slice %s 0 %d %d)", ref, n, n)}
	case *types.Array:
		if isByte(u.Elem()) {
			if len(x.Elts) == 0 {
				return &Val{T: t, S: fr.eng.zeroOf(t)}
			}
			if int64(len(x.Elts)) == u.Len() {
				var parts []string
				keyed := false
				for _, el := range x.Elts {
					if _, ok := el.(*ast.KeyValueExpr); ok {
						keyed = true
						break
					}
					parts = append(parts, "(seq.unit "+fr.eval(s, el).S+")")
				}
				if !keyed {
					if len(parts) == 1 {
						return &Val{T: t, S: parts[0]}
					}
					return &Val{T: t, S: fr.vc.define("lit", "(Seq Int)", "(seq.++ "+strings.Join(parts, " ")+")")}
				}
			}
			fr.imprecise(x.Pos(), "byte array literal")
			return fr.freshVal(s, t, "lit")
		}
		arr := fr.eng.zeroOf(t)
		for i, el := range x.Elts {
			if _, ok := el.(*ast.KeyValueExpr); ok {
				fr.imprecise(x.Pos(), "keyed array literal")
				return fr.freshVal(s, t, "lit")
			}
			v := fr.convertTo(s, fr.evalElt(s, el, u.Elem()), u.Elem())
			arr = fmt.Sprintf("(store %s %d %s)", arr, i, v.S)
		}
		return &Val{T: t, S: fr.vc.define("lit", fr.eng.sortOf(t), arr)}
	case *types.Map:
		ref := s.alloc()
		vn, vs, dn, ds := fr.eng.mapHeaps(u)
		ks := fr.eng.sortOf(u.Key())
		dom := fmt.Sprintf("((as const (Array %s Bool)) false)", ks)
		vals := fmt.Sprintf("(select %s %s)", s.heap(vn, vs), ref)
		for _, el := range x.Elts {
			kv, ok := el.(*ast.KeyValueExpr)
			if !ok {
				continue
			}
			k := fr.convertTo(s, fr.evalElt(s, kv.Key, u.Key()), u.Key())
			v := fr.convertTo(s, fr.evalElt(s, kv.Value, u.Elem()), u.Elem())
			dom = fmt.Sprintf("(store %s %s true)", dom, k.S)
			vals = fmt.Sprintf("(store %s %s %s)", vals, k.S, v.S)
		}
		s.setHeap(dn, ds, fmt.Sprintf("(store %s %s %s)", s.heap(dn, ds), ref, dom))
		s.setHeap(vn, vs, fmt.Sprintf("(store %s %s %s)", s.heap(vn, vs), ref, vals))
		return &Val{T: t, S: ref}
	case *types.Pointer:
		// &T{} elided inside composite literal of []*T etc.
		_ = u
	}
	fr.unsupported(x.Pos(), "composite literal of "+t.String())
	return fr.freshVal(s, t, "unsup")
}

// evalElt evaluates a composite-literal element whose type may be elided.
func (fr *Frame) evalElt(s *State, e ast.Expr, want types.Type) *Val {
	if cl, ok := e.(*ast.CompositeLit); ok && cl.Type == nil {
		if p, ok := want.Underlying().(*types.Pointer); ok {
			// elided &T
			fr.info.Types[cl] = types.TypeAndValue{Type: p.Elem()}
			v := fr.evalCompositeLit(s, cl)
			ref := s.alloc()
			hn, hs := fr.eng.ptrHeap(v.T)
			s.setHeap(hn, hs, fmt.Sprintf("(store %s %s %s)", s.heap(hn, hs), ref, v.S))
			return &Val{T: want, S: ref}
		}
	}
	return fr.eval(s, e)
}

// ---------------------------------------------------------------------------
// type assertions

func (fr *Frame) evalTypeAssert(s *State, x *ast.TypeAssertExpr, commaOk bool) []*Val {
	v := fr.eval(s, x.X)
	t := fr.typeOf(x.Type)
	if t == nil {
		t = fr.typeOf(x)
	}
	val, ok := fr.typeAssert(s, v, t)
	if !commaOk {
		fr.vc.oblige(s, "assert-type", ok, x.Pos(), "type assertion to "+types.TypeString(t, nil)+" may fail")
		return []*Val{val}
	}
	// comma-ok: value is the zero value when !ok
	zv := &Val{T: t, S: fr.vc.small("ta", fr.eng.sortOf(t), ite(ok, val.S, fr.eng.zeroOf(t)))}
	return []*Val{zv, {T: types.Typ[types.Bool], S: ok}}
}

// typeAssert returns the value of v.(t) and the condition under which it succeeds.
func (fr *Frame) typeAssert(s *State, v *Val, t types.Type) (*Val, string) {
	if _, isI := t.Underlying().(*types.Interface); isI {
		// dynamic type implements t: unknown unless v is statically of an interface type that implies it
		if it, ok := v.T.Underlying().(*types.Interface); ok && types.Implements(it, t.Underlying().(*types.Interface)) {
			return &Val{T: t, S: v.S}, not(eq(v.S, "0"))
		}
		okc := fr.vc.declare("implok", "Bool")
		s.assume(implies(okc, not(eq(v.S, "0"))))
		return &Val{T: t, S: v.S}, okc
	}
	id := fr.eng.typeID(t)
	srt := fr.eng.sortOf(t)
	_, unbox := fr.eng.boxFuncs(srt)
	ok := fmt.Sprintf("(= (tagof %s) %d)", v.S, id)
	val := &Val{T: t, S: fmt.Sprintf("(%s %s)", unbox, v.S)}
	return val, ok
}

// elemAddr returns the position of element i of slice v inside its backing array.
func elemAddr(v *Val, i string) string {
	if v.Sub != nil {
		if v.Sub[1] == "0" {
			return fmt.Sprintf("(ix %s %s)", v.Sub[0], i)
		}
		if i == "0" {
			return fmt.Sprintf("(ix %s %s)", v.Sub[0], v.Sub[1])
		}
		return fmt.Sprintf("(ix %s (+ %s %s))", v.Sub[0], v.Sub[1], i)
	}
	return fmt.Sprintf("(ix (sl_off %s) %s)", v.S, i)
}
