package main

// Evaluation of specification expressions to SMT terms.

import (
	"fmt"
	"go/ast"
	"go/constant"
	"go/parser"
	"go/token"
	"go/types"
	"strconv"
	"strings"
)

type SpecEnv struct {
	eng    *Engine
	vc     *VC
	s      *State
	old    *State
	names  map[string]*Val
	pos    token.Pos
	pkg    *types.Package
	quant  int
	side   *[]string // facts produced by function applications
	err    error
	fr     *Frame
	result []*Val
	// missingLocal is set when a clause names a local variable of the function that is not in scope in the
	// state at hand (postconditions over locals are only checked at the returns where the local is live)
	missingLocal *string
	// localsOf: the function whose locals missingLocal refers to (nil: the function of env.fr)
	localsOf *FuncInfo
	// locals: inside old(...) the heap is the entry heap but local variables keep their current values
	locals *State
}

func (env *SpecEnv) fail(format string, args ...interface{}) *Val {
	if env.err == nil {
		env.err = fmt.Errorf(format, args...)
	}
	return &Val{T: types.Typ[types.Bool], S: "true"}
}

// hasLocal: does the function under verification declare a local variable of that name?
func (fr *Frame) hasLocal(name string) bool {
	return fr.fi.hasLocal(name)
}

func (fi *FuncInfo) hasLocal(name string) bool {
	if fi == nil || fi.Pkg.TypesInfo == nil {
		return false
	}
	for id, o := range fi.Pkg.TypesInfo.Defs {
		if o == nil || id.Name != name {
			continue
		}
		if v, ok := o.(*types.Var); ok && !v.IsField() && fi.Decl.Body != nil && id.Pos() >= fi.Decl.Body.Pos() && id.Pos() <= fi.Decl.Body.End() {
			return true
		}
	}
	return false
}

func (env *SpecEnv) with(names map[string]*Val) *SpecEnv {
	c := *env
	c.names = map[string]*Val{}
	for k, v := range env.names {
		c.names[k] = v
	}
	for k, v := range names {
		c.names[k] = v
	}
	return &c
}

func (env *SpecEnv) inState(s *State) *SpecEnv {
	c := *env
	c.s = s
	return &c
}

// evalBool evaluates a clause to a Bool term.
func (env *SpecEnv) evalBool(e SpecExpr) string {
	v := env.eval(e)
	return v.S
}

func (env *SpecEnv) eval(e SpecExpr) *Val {
	switch x := e.(type) {
	case *SImplies:
		a := env.eval(x.A)
		b := env.eval(x.B)
		return &Val{T: types.Typ[types.Bool], S: implies(a.S, b.S)}
	case *SIff:
		a := env.eval(x.A)
		b := env.eval(x.B)
		return &Val{T: types.Typ[types.Bool], S: eq(a.S, b.S)}
	case *SQuant:
		return env.evalQuant(x)
	case *SGo:
		sub := env
		if len(x.Subs) > 0 {
			sub = env.with(nil)
			sub.subs(x.Subs)
		}
		v := sub.evalGo(x.E)
		if sub != env && sub.err != nil && env.err == nil {
			env.err = sub.err
		}
		return v
	}
	return env.fail("bad spec expression %T", e)
}

// placeholders for nested spec syntax are stored under their names as closures
type subHolder struct{ e SpecExpr }

var subTable = map[string]SpecExpr{}

func (env *SpecEnv) subs(m map[string]SpecExpr) {
	for k, v := range m {
		env.names[k] = &Val{Fn: &Closure{Lit: v}}
	}
}

func (env *SpecEnv) evalQuant(q *SQuant) *Val {
	names := map[string]*Val{}
	var binders []string
	var typing []string
	for _, b := range q.Vars {
		t, err := env.eng.resolveType(b.Type, env.pkg)
		if err != nil {
			return env.fail("quantifier binder %s: %v", b.Name, err)
		}
		env.eng.nfresh++
		sym := fmt.Sprintf("q_%s_%d", sanitize(b.Name), env.eng.nfresh)
		names[b.Name] = &Val{T: t, S: sym}
		binders = append(binders, fmt.Sprintf("(%s %s)", sym, env.eng.sortOf(t)))
		// no length bound for quantified byte strings: statements such as "every other key is unchanged"
		// hold for (and must be usable with) byte strings whose length bound is not known to the solver
		tf := env.eng.typeFact(&Val{T: t, S: sym}, "")
		switch u := t.Underlying().(type) {
		case *types.Slice:
			if isByte(u.Elem()) {
				tf = "true"
			}
		case *types.Basic:
			if u.Info()&types.IsString != 0 {
				tf = "true"
			}
		}
		typing = append(typing, tf)
	}
	sub := env.with(names)
	sub.quant++
	body := sub.eval(q.Body)
	if sub.err != nil {
		env.err = sub.err
	}
	pat := ""
	if len(q.Pats) > 0 {
		var ps []string
		for _, p := range q.Pats {
			ps = append(ps, sub.eval(p).S)
		}
		pat = " :pattern (" + strings.Join(ps, " ") + ")"
	}
	ty := and(typing...)
	var inner string
	if q.Forall {
		inner = implies(ty, body.S)
	} else {
		inner = and(ty, body.S)
	}
	if pat != "" {
		inner = "(! " + inner + pat + ")"
	}
	kw := "forall"
	if !q.Forall {
		kw = "exists"
	}
	return &Val{T: types.Typ[types.Bool], S: fmt.Sprintf("(%s (%s) %s)", kw, strings.Join(binders, " "), inner)}
}

// resolveType parses a Go type expression in the scope of pkg.
func (e *Engine) resolveType(text string, pkg *types.Package) (types.Type, error) {
	x, err := parser.ParseExpr(text)
	if err != nil {
		return nil, fmt.Errorf("bad type %q: %v", text, err)
	}
	return e.typeFromExpr(x, pkg)
}

func (e *Engine) typeFromExpr(x ast.Expr, pkg *types.Package) (types.Type, error) {
	switch t := x.(type) {
	case *ast.Ident:
		if o := types.Universe.Lookup(t.Name); o != nil {
			if tn, ok := o.(*types.TypeName); ok {
				return tn.Type(), nil
			}
		}
		if pkg != nil {
			if o := pkg.Scope().Lookup(t.Name); o != nil {
				if tn, ok := o.(*types.TypeName); ok {
					return tn.Type(), nil
				}
			}
		}
		return nil, fmt.Errorf("unknown type %s", t.Name)
	case *ast.SelectorExpr:
		id, ok := t.X.(*ast.Ident)
		if !ok {
			return nil, fmt.Errorf("bad qualified type")
		}
		ip := e.findImport(pkg, id.Name)
		if ip == nil {
			return nil, fmt.Errorf("unknown package %s", id.Name)
		}
		if o := ip.Scope().Lookup(t.Sel.Name); o != nil {
			if tn, ok := o.(*types.TypeName); ok {
				return tn.Type(), nil
			}
		}
		return nil, fmt.Errorf("unknown type %s.%s", id.Name, t.Sel.Name)
	case *ast.StarExpr:
		el, err := e.typeFromExpr(t.X, pkg)
		if err != nil {
			return nil, err
		}
		return types.NewPointer(el), nil
	case *ast.ArrayType:
		el, err := e.typeFromExpr(t.Elt, pkg)
		if err != nil {
			return nil, err
		}
		if t.Len == nil {
			return types.NewSlice(el), nil
		}
		if bl, ok := t.Len.(*ast.BasicLit); ok {
			n, _ := strconv.Atoi(bl.Value)
			return types.NewArray(el, int64(n)), nil
		}
	case *ast.MapType:
		k, err := e.typeFromExpr(t.Key, pkg)
		if err != nil {
			return nil, err
		}
		v, err := e.typeFromExpr(t.Value, pkg)
		if err != nil {
			return nil, err
		}
		return types.NewMap(k, v), nil
	case *ast.InterfaceType:
		return types.NewInterfaceType(nil, nil), nil
	case *ast.ParenExpr:
		return e.typeFromExpr(t.X, pkg)
	}
	return nil, fmt.Errorf("unsupported type expression")
}

func (e *Engine) findImport(pkg *types.Package, name string) *types.Package {
	if pkg != nil {
		for _, ip := range pkg.Imports() {
			if ip.Name() == name {
				return ip
			}
		}
		if pkg.Name() == name {
			return pkg
		}
	}
	// fall back to a loaded package with that name: packages of this module first, then by path (deterministic)
	var best *types.Package
	for _, p := range e.pkgs {
		if p.Types == nil || p.Types.Name() != name {
			continue
		}
		if best == nil {
			best = p.Types
			continue
		}
		bm, pm := strings.HasPrefix(best.Path(), modulePath), strings.HasPrefix(p.Types.Path(), modulePath)
		if (pm && !bm) || (pm == bm && p.Types.Path() < best.Path()) {
			best = p.Types
		}
	}
	return best
}

var boolT = types.Typ[types.Bool]
var intT = types.Typ[types.Int]

func (env *SpecEnv) lookupName(name string) *Val {
	if v, ok := env.names[name]; ok {
		return v
	}
	// local variables of the function under verification, by name and scope position
	for _, st := range []*State{env.s, env.locals} {
		if st == nil {
			continue
		}
		var best types.Object
		consider := func(o types.Object) {
			if o.Name() != name {
				return
			}
			if env.pos.IsValid() && o.Parent() != nil && !o.Parent().Contains(env.pos) && o.Pos().IsValid() {
				// parameters/results live in the function scope which contains the body
				return
			}
			if best == nil || o.Pos() > best.Pos() {
				best = o
			}
		}
		for o := range st.vars {
			consider(o)
		}
		for o := range st.boxed {
			consider(o)
		}
		if best != nil {
			if v, ok := st.vars[best]; ok {
				return v
			}
			ref := st.boxed[best]
			hn, hs := env.eng.ptrHeap(best.Type())
			return &Val{T: best.Type(), S: fmt.Sprintf("(select %s %s)", st.heap(hn, hs), ref)}
		}
	}
	switch name {
	case "true":
		return &Val{T: boolT, S: "true"}
	case "false":
		return &Val{T: boolT, S: "false"}
	case "nil":
		return &Val{T: types.Typ[types.UntypedNil], S: "0"}
	}
	if env.pkg != nil {
		if o := env.pkg.Scope().Lookup(name); o != nil {
			return env.objVal(o)
		}
	}
	return nil
}

func (env *SpecEnv) objVal(o types.Object) *Val {
	switch x := o.(type) {
	case *types.Const:
		return constToVal(x.Type(), x.Val())
	case *types.Var:
		hn, hs := env.eng.globalHeap(x)
		if env.fr != nil && env.fr.vc != nil {
			env.fr.initConstGlobal(env.s, x, hn, hs)
		}
		return &Val{T: x.Type(), S: env.s.heap(hn, hs)}
	}
	return nil
}

func constToVal(t types.Type, v constant.Value) *Val {
	switch v.Kind() {
	case constant.Bool:
		if constant.BoolVal(v) {
			return &Val{T: t, S: "true", Const: v}
		}
		return &Val{T: t, S: "false", Const: v}
	case constant.String:
		return &Val{T: t, S: seqLit(constant.StringVal(v)), Const: v}
	case constant.Int:
		return &Val{T: t, S: smtInt(v.ExactString()), Const: v}
	case constant.Float:
		if iv := constant.ToInt(v); iv.Kind() == constant.Int {
			return &Val{T: t, S: smtInt(iv.ExactString()), Const: v}
		}
	}
	return &Val{T: t, S: "0", Const: v}
}

func (env *SpecEnv) evalGo(e ast.Expr) *Val {
	switch x := e.(type) {
	case *ast.ParenExpr:
		return env.evalGo(x.X)
	case *ast.BasicLit:
		switch x.Kind {
		case token.INT:
			v := constant.MakeFromLiteral(x.Value, token.INT, 0)
			return &Val{T: types.Typ[types.UntypedInt], S: smtInt(v.ExactString()), Const: v}
		case token.STRING:
			sv, err := strconv.Unquote(x.Value)
			if err != nil {
				return env.fail("bad string literal %s", x.Value)
			}
			return &Val{T: types.Typ[types.String], S: seqLit(sv), Const: constant.MakeString(sv)}
		case token.CHAR:
			v := constant.MakeFromLiteral(x.Value, token.CHAR, 0)
			return &Val{T: types.Typ[types.UntypedRune], S: v.ExactString(), Const: v}
		}
		return env.fail("unsupported literal %s", x.Value)
	case *ast.Ident:
		v := env.lookupName(x.Name)
		if v == nil {
			if env.missingLocal != nil && env.localsOf != nil && env.localsOf.hasLocal(x.Name) {
				*env.missingLocal = x.Name
				return &Val{T: intT, S: "0"}
			}
			if env.missingLocal != nil && env.localsOf == nil && env.fr != nil && env.fr.fi != nil && env.fr.hasLocal(x.Name) {
				*env.missingLocal = x.Name
				return &Val{T: intT, S: "0"}
			}
			return env.fail("unknown name %q in specification", x.Name)
		}
		if v.Fn != nil && v.S == "" {
			if se, ok := v.Fn.Lit.(SpecExpr); ok && strings.HasPrefix(x.Name, "__sub") {
				return env.eval(se)
			}
		}
		return v
	case *ast.SelectorExpr:
		return env.evalSelector(x)
	case *ast.StarExpr:
		p := env.evalGo(x.X)
		pt, ok := p.T.Underlying().(*types.Pointer)
		if !ok {
			return env.fail("deref of non-pointer in spec")
		}
		hn, hs := env.eng.ptrHeap(pt.Elem())
		return &Val{T: pt.Elem(), S: fmt.Sprintf("(select %s %s)", env.s.heap(hn, hs), p.S)}
	case *ast.UnaryExpr:
		v := env.evalGo(x.X)
		switch x.Op {
		case token.NOT:
			return &Val{T: boolT, S: not(v.S)}
		case token.SUB:
			if v.Const != nil {
				c := constant.UnaryOp(token.SUB, v.Const, 0)
				return &Val{T: v.T, S: smtInt(c.ExactString()), Const: c}
			}
			return &Val{T: v.T, S: "(- " + v.S + ")"}
		case token.ADD:
			return v
		}
		return env.fail("unsupported unary %s in spec", x.Op)
	case *ast.BinaryExpr:
		return env.evalBinary(x)
	case *ast.IndexExpr:
		return env.evalIndex(x)
	case *ast.SliceExpr:
		return env.evalSlice(x)
	case *ast.CallExpr:
		return env.evalCall(x)
	}
	return env.fail("unsupported spec expression %T", e)
}

func (env *SpecEnv) evalSelector(x *ast.SelectorExpr) *Val {
	// package-qualified?
	if id, ok := x.X.(*ast.Ident); ok {
		if env.lookupName(id.Name) == nil {
			if ip := env.eng.findImport(env.pkg, id.Name); ip != nil {
				o := ip.Scope().Lookup(x.Sel.Name)
				if o == nil {
					return env.fail("unknown %s.%s", id.Name, x.Sel.Name)
				}
				v := env.objVal(o)
				if v == nil {
					return env.fail("cannot use %s.%s in spec", id.Name, x.Sel.Name)
				}
				return v
			}
		}
	}
	base := env.evalGo(x.X)
	if env.err != nil {
		return base
	}
	return env.field(base, x.Sel.Name)
}

func (env *SpecEnv) field(base *Val, name string) *Val {
	cur := base
	if pt, ok := cur.T.Underlying().(*types.Pointer); ok {
		hn, hs := env.eng.ptrHeap(pt.Elem())
		cur = &Val{T: pt.Elem(), S: fmt.Sprintf("(select %s %s)", env.s.heap(hn, hs), cur.S)}
	}
	st, ok := cur.T.Underlying().(*types.Struct)
	if !ok {
		return env.fail("field %s on non-struct %s", name, cur.T)
	}
	si := env.eng.structSort(cur.T)
	if idx := si.fieldIndex(name); idx >= 0 {
		r := env.eng.getField(cur, idx)
		// a field read yields a well-typed value (integer range, slice header well-formedness)
		if env.quant == 0 && env.side != nil {
			switch r.T.Underlying().(type) {
			case *types.Basic, *types.Slice, *types.Pointer, *types.Map, *types.Interface:
				if f := env.eng.typeFact(r, ""); f != "true" {
					*env.side = append(*env.side, f)
				}
			}
		}
		return r
	}
	// promoted through embedded fields
	for i := 0; i < st.NumFields(); i++ {
		if st.Field(i).Embedded() {
			sub := env.eng.getField(cur, i)
			bt := sub.T
			if p, ok := bt.Underlying().(*types.Pointer); ok {
				bt = p.Elem()
			}
			if s2, ok := bt.Underlying().(*types.Struct); ok {
				for j := 0; j < s2.NumFields(); j++ {
					if s2.Field(j).Name() == name {
						return env.field(sub, name)
					}
				}
			}
		}
	}
	return env.fail("no field %s in %s", name, cur.T)
}

func (env *SpecEnv) evalBinary(x *ast.BinaryExpr) *Val {
	l := env.evalGo(x.X)
	r := env.evalGo(x.Y)
	if env.err != nil {
		return l
	}
	switch x.Op {
	case token.LAND:
		return &Val{T: boolT, S: and(l.S, r.S)}
	case token.LOR:
		return &Val{T: boolT, S: or(l.S, r.S)}
	case token.EQL, token.NEQ:
		c := env.eqVals(l, r)
		if x.Op == token.NEQ {
			c = not(c)
		}
		return &Val{T: boolT, S: c}
	case token.LSS, token.LEQ, token.GTR, token.GEQ:
		ops := map[token.Token]string{token.LSS: "<", token.LEQ: "<=", token.GTR: ">", token.GEQ: ">="}
		if l.T != nil && isByteSeq(l.T) {
			return &Val{T: boolT, S: fmt.Sprintf("(%s (bcmp %s %s) 0)", ops[x.Op], l.S, r.S)}
		}
		return &Val{T: boolT, S: fmt.Sprintf("(%s %s %s)", ops[x.Op], l.S, r.S)}
	}
	t := l.T
	if isUntyped(t) && r.T != nil {
		t = r.T
	}
	if l.Const != nil && r.Const != nil && l.Const.Kind() == constant.Int && r.Const.Kind() == constant.Int {
		switch x.Op {
		case token.ADD, token.SUB, token.MUL:
			c := constant.BinaryOp(l.Const, x.Op, r.Const)
			return &Val{T: t, S: smtInt(c.ExactString()), Const: c}
		case token.SHL:
			if n, ok := constant.Uint64Val(r.Const); ok && n < 512 {
				c := constant.Shift(l.Const, token.SHL, uint(n))
				return &Val{T: t, S: smtInt(c.ExactString()), Const: c}
			}
		case token.QUO:
			if constant.Sign(r.Const) != 0 {
				c := constant.BinaryOp(l.Const, token.QUO_ASSIGN, r.Const)
				return &Val{T: t, S: smtInt(c.ExactString()), Const: c}
			}
		}
	}
	switch x.Op {
	case token.ADD:
		if l.T != nil && isByteSeq(l.T) {
			return &Val{T: t, S: fmt.Sprintf("(seq.++ %s %s)", l.S, r.S)}
		}
		return &Val{T: t, S: fmt.Sprintf("(+ %s %s)", l.S, r.S)}
	case token.SUB:
		return &Val{T: t, S: fmt.Sprintf("(- %s %s)", l.S, r.S)}
	case token.MUL:
		return &Val{T: t, S: fmt.Sprintf("(* %s %s)", l.S, r.S)}
	case token.QUO:
		return &Val{T: t, S: fmt.Sprintf("(tdiv %s %s)", l.S, r.S)}
	case token.REM:
		return &Val{T: t, S: fmt.Sprintf("(tmod %s %s)", l.S, r.S)}
	case token.SHL:
		if r.Const != nil {
			if n, ok := constant.Uint64Val(r.Const); ok && n < 512 {
				return &Val{T: t, S: fmt.Sprintf("(* %s %s)", l.S, pow2(int(n)))}
			}
		}
	case token.SHR:
		if r.Const != nil {
			if n, ok := constant.Uint64Val(r.Const); ok && n < 512 {
				return &Val{T: t, S: fmt.Sprintf("(div %s %s)", l.S, pow2(int(n)))}
			}
		}
	}
	return env.fail("unsupported binary %s in spec", x.Op)
}

func (env *SpecEnv) eqVals(l, r *Val) string {
	isNil := func(v *Val) bool {
		b, ok := v.T.(*types.Basic)
		return ok && b.Kind() == types.UntypedNil
	}
	nilOf := func(v *Val) string {
		if sl, ok := v.T.Underlying().(*types.Slice); ok {
			if isByte(sl.Elem()) {
				return fmt.Sprintf("(= (seq.len %s) 0)", v.S)
			}
			return fmt.Sprintf("(= (sl_ref %s) 0)", v.S)
		}
		return eq(v.S, "0")
	}
	if isNil(r) && !isNil(l) {
		return nilOf(l)
	}
	if isNil(l) && !isNil(r) {
		return nilOf(r)
	}
	return eq(l.S, r.S)
}

func (env *SpecEnv) evalIndex(x *ast.IndexExpr) *Val {
	base := env.evalGo(x.X)
	idx := env.evalGo(x.Index)
	if env.err != nil {
		return base
	}
	return env.indexVal(base, idx)
}

func (env *SpecEnv) indexVal(base, idx *Val) *Val {
	if p, ok := base.T.Underlying().(*types.Pointer); ok {
		if _, ok := p.Elem().Underlying().(*types.Array); ok {
			hn, hs := env.eng.ptrHeap(p.Elem())
			base = &Val{T: p.Elem(), S: fmt.Sprintf("(select %s %s)", env.s.heap(hn, hs), base.S)}
		}
	}
	switch u := base.T.Underlying().(type) {
	case *types.Slice:
		if isByte(u.Elem()) {
			return &Val{T: u.Elem(), S: fmt.Sprintf("(seq.nth %s %s)", base.S, idx.S)}
		}
		hn, hs := env.eng.elemHeap(u.Elem())
		return &Val{T: u.Elem(), S: fmt.Sprintf("(select (select %s (sl_ref %s)) (ix (sl_off %s) %s))", env.s.heap(hn, hs), base.S, base.S, idx.S)}
	case *types.Array:
		if isByte(u.Elem()) {
			return &Val{T: u.Elem(), S: fmt.Sprintf("(seq.nth %s %s)", base.S, idx.S)}
		}
		return &Val{T: u.Elem(), S: fmt.Sprintf("(select %s %s)", base.S, idx.S)}
	case *types.Basic:
		return &Val{T: types.Typ[types.Uint8], S: fmt.Sprintf("(seq.nth %s %s)", base.S, idx.S)}
	case *types.Map:
		vn, vs, dn, ds := env.eng.mapHeaps(u)
		in := fmt.Sprintf("(select (select %s %s) %s)", env.s.heap(dn, ds), base.S, idx.S)
		val := fmt.Sprintf("(select (select %s %s) %s)", env.s.heap(vn, vs), base.S, idx.S)
		return &Val{T: u.Elem(), S: ite(in, val, env.eng.zeroOf(u.Elem()))}
	}
	return env.fail("index on %s in spec", base.T)
}

func (env *SpecEnv) lenOf(v *Val) string {
	switch u := v.T.Underlying().(type) {
	case *types.Slice:
		if isByte(u.Elem()) {
			return "(seq.len " + v.S + ")"
		}
		return "(sl_len " + v.S + ")"
	case *types.Array:
		return fmt.Sprintf("%d", u.Len())
	case *types.Basic:
		return "(seq.len " + v.S + ")"
	case *types.Map:
		_, _, dn, ds := env.eng.mapHeaps(u)
		ks := env.eng.sortOf(u.Key())
		fn := "card_" + sortKey(ks)
		if _, ok := env.eng.syms.syms[fn]; !ok {
			env.eng.syms.add(fn, fmt.Sprintf("(declare-fun %s ((Array %s Bool)) Int)\n(assert (forall ((d (Array %s Bool)) (k %s)) (! (=> (<= (%s d) 0) (not (select d k))) :pattern ((%s d) (select d k)))))", fn, ks, ks, ks, fn, fn))
		}
		return fmt.Sprintf("(%s (select %s %s))", fn, env.s.heap(dn, ds), v.S)
	}
	return "0"
}

func (env *SpecEnv) evalSlice(x *ast.SliceExpr) *Val {
	base := env.evalGo(x.X)
	lo := "0"
	if x.Low != nil {
		lo = env.evalGo(x.Low).S
	}
	if env.err != nil {
		return base
	}
	if isByteSeq(base.T) {
		hi := "(seq.len " + base.S + ")"
		if x.High != nil {
			hi = env.evalGo(x.High).S
		}
		t := base.T
		if _, ok := t.Underlying().(*types.Array); ok {
			t = types.NewSlice(types.Typ[types.Uint8])
		}
		return &Val{T: t, S: fmt.Sprintf("(seq.extract %s %s (- %s %s))", base.S, lo, hi, lo)}
	}
	if _, ok := base.T.Underlying().(*types.Slice); ok {
		hi := "(sl_len " + base.S + ")"
		if x.High != nil {
			hi = env.evalGo(x.High).S
		}
		return &Val{T: base.T, S: fmt.Sprintf("(mk_Slice (sl_ref %s) (+ (sl_off %s) %s) (- %s %s) (- (sl_cap %s) %s))", base.S, base.S, lo, hi, lo, base.S, lo)}
	}
	return env.fail("slice expression on %s in spec", base.T)
}

func (env *SpecEnv) evalCall(x *ast.CallExpr) *Val {
	// method call or qualified function?
	switch f := x.Fun.(type) {
	case *ast.Ident:
		return env.evalNamedCall(f.Name, x)
	case *ast.SelectorExpr:
		// conversion pkg.Type(x) or pkg.Func(...) or recv.Method(...)
		if id, ok := f.X.(*ast.Ident); ok && env.lookupName(id.Name) == nil {
			if ip := env.eng.findImport(env.pkg, id.Name); ip != nil {
				o := ip.Scope().Lookup(f.Sel.Name)
				switch oo := o.(type) {
				case *types.TypeName:
					if len(x.Args) != 1 {
						return env.fail("conversion arity")
					}
					v := env.evalGo(x.Args[0])
					return &Val{T: oo.Type(), S: v.S}
				case *types.Func:
					return env.applyFunc(oo, nil, x.Args)
				}
				return env.fail("unknown function %s.%s in spec", id.Name, f.Sel.Name)
			}
		}
		recv := env.evalGo(f.X)
		if env.err != nil {
			return recv
		}
		m := env.findMethod(recv.T, f.Sel.Name)
		if m == nil {
			return env.fail("no method %s on %s", f.Sel.Name, recv.T)
		}
		return env.applyFunc(m, recv, x.Args)
	case *ast.ParenExpr, *ast.StarExpr, *ast.ArrayType:
		// conversion to composite type
		t, err := env.eng.typeFromExpr(x.Fun, env.pkg)
		if err != nil {
			return env.fail("%v", err)
		}
		v := env.evalGo(x.Args[0])
		return &Val{T: t, S: v.S}
	}
	return env.fail("unsupported call form in spec")
}

func (env *SpecEnv) findMethod(t types.Type, name string) *types.Func {
	ms := types.NewMethodSet(t)
	for i := 0; i < ms.Len(); i++ {
		if ms.At(i).Obj().Name() == name {
			return ms.At(i).Obj().(*types.Func)
		}
	}
	if _, ok := t.Underlying().(*types.Pointer); !ok {
		ms = types.NewMethodSet(types.NewPointer(t))
		for i := 0; i < ms.Len(); i++ {
			if ms.At(i).Obj().Name() == name {
				return ms.At(i).Obj().(*types.Func)
			}
		}
	}
	return nil
}

func (env *SpecEnv) evalNamedCall(name string, x *ast.CallExpr) *Val {
	arg := func(i int) *Val {
		if i >= len(x.Args) {
			return env.fail("%s: missing argument", name)
		}
		return env.evalGo(x.Args[i])
	}
	switch name {
	case "old":
		if env.old == nil {
			return env.fail("old() not available here")
		}
		sub := env.inState(env.old)
		if sub.locals == nil {
			sub.locals = env.s
		}
		// names bound to entry values: parameters in `names` are already entry values
		v := sub.evalGo(x.Args[0])
		if sub.err != nil {
			env.err = sub.err
		}
		return v
	case "len":
		return &Val{T: intT, S: env.lenOf(arg(0))}
	case "cap":
		v := arg(0)
		return &Val{T: intT, S: "(sl_cap " + v.S + ")"}
	case "tdiv":
		return &Val{T: intT, S: fmt.Sprintf("(tdiv %s %s)", arg(0).S, arg(1).S)}
	case "tmod":
		return &Val{T: intT, S: fmt.Sprintf("(tmod %s %s)", arg(0).S, arg(1).S)}
	case "fdiv":
		return &Val{T: intT, S: fmt.Sprintf("(div %s %s)", arg(0).S, arg(1).S)}
	case "fmod":
		return &Val{T: intT, S: fmt.Sprintf("(mod %s %s)", arg(0).S, arg(1).S)}
	case "abs":
		return &Val{T: intT, S: fmt.Sprintf("(abs %s)", arg(0).S)}
	case "ite":
		a, b, c := arg(0), arg(1), arg(2)
		return &Val{T: b.T, S: ite(a.S, b.S, c.S)}
	case "val":
		// mathematical value of a *big.Int
		p := arg(0)
		return &Val{T: intT, S: fmt.Sprintf("(select %s %s)", env.s.heap("H:big", "(Array Int Int)"), p.S)}
	case "bytes2nat":
		return &Val{T: intT, S: "(bytes2nat " + arg(0).S + ")"}
	case "nat2bytes":
		return &Val{T: types.NewSlice(types.Typ[types.Uint8]), S: "(nat2bytes " + arg(0).S + ")"}
	case "bcmp":
		return &Val{T: intT, S: fmt.Sprintf("(bcmp %s %s)", arg(0).S, arg(1).S)}
	case "hash32":
		env.eng.hashSym()
		return &Val{T: types.NewSlice(types.Typ[types.Uint8]), S: "(hash32 " + arg(0).S + ")"}
	case "wbytes", "wfail":
		// ghost byte stream / failure flag of a writer (hash.Hash, *bytes.Buffer, io.Writer)
		w := arg(0)
		key := (&Frame{eng: env.eng}).writerKey(w)
		if name == "wfail" {
			return &Val{T: boolT, S: "(wfail " + key + ")"}
		}
		return &Val{T: types.NewSlice(types.Typ[types.Uint8]), S: env.s.stream(key)}
	case "le64", "le32", "le16", "be64", "be32", "be16":
		v := arg(0)
		w := map[string]int{"64": 8, "32": 4, "16": 2}[name[2:]]
		dec, enc := fmt.Sprintf("dec_%s%d", name[:2], w), fmt.Sprintf("enc_%s%d", name[:2], w)
		env.eng.codecSyms(dec, enc, w)
		t := v.S
		if _, signed := intBits(v.T); signed && isIntType(v.T) && !isUntyped(v.T) {
			t = fmt.Sprintf("(mod %s %s)", v.S, pow2(8*w))
		}
		return &Val{T: types.NewSlice(types.Typ[types.Uint8]), S: fmt.Sprintf("(%s %s)", enc, t)}
	case "unle64", "unle32", "unle16", "unbe64", "unbe32", "unbe16":
		v := arg(0)
		w := map[string]int{"64": 8, "32": 4, "16": 2}[name[4:]]
		dec, enc := fmt.Sprintf("dec_%s%d", name[2:4], w), fmt.Sprintf("enc_%s%d", name[2:4], w)
		env.eng.codecSyms(dec, enc, w)
		return &Val{T: intT, S: fmt.Sprintf("(%s %s)", dec, v.S)}
	case "gmap":
		// gmap(map, obj, key): value of key in the ghost map `map` of object obj
		if len(x.Args) != 3 {
			return env.fail("gmap(map, obj, key)")
		}
		id, ok := x.Args[0].(*ast.Ident)
		if !ok {
			return env.fail("gmap: the map name must be an identifier")
		}
		o, k := arg(1), arg(2)
		hn, hs := ghostMapHeap(id.Name)
		return &Val{T: types.NewSlice(types.Typ[types.Uint8]), S: fmt.Sprintf("(select (select %s %s) %s)", env.s.heap(hn, hs), o.S, k.S)}
	case "gin":
		// gin(set, obj, elem): elem is in the ghost set `set` of object obj (elements are byte strings)
		if len(x.Args) != 3 {
			return env.fail("gin(set, obj, elem)")
		}
		id, ok := x.Args[0].(*ast.Ident)
		if !ok {
			return env.fail("gin: the set name must be an identifier")
		}
		o, e2 := arg(1), arg(2)
		hn, hs := ghostHeap(id.Name)
		return &Val{T: boolT, S: fmt.Sprintf("(select (select %s %s) %s)", env.s.heap(hn, hs), o.S, e2.S)}
	case "bytes1":
		return &Val{T: types.NewSlice(types.Typ[types.Uint8]), S: "(seq.unit " + arg(0).S + ")"}
	case "in":
		// in(k, m): key membership
		k, m := arg(0), arg(1)
		mt, ok := m.T.Underlying().(*types.Map)
		if !ok {
			return env.fail("in(): second argument is not a map")
		}
		_, _, dn, ds := env.eng.mapHeaps(mt)
		return &Val{T: boolT, S: fmt.Sprintf("(select (select %s %s) %s)", env.s.heap(dn, ds), m.S, k.S)}
	case "tagis":
		// tagis(x, T): dynamic type of interface value x is T
		v := arg(0)
		if len(x.Args) < 2 {
			return env.fail("tagis arity")
		}
		t, err := env.eng.typeFromExpr(x.Args[1], env.pkg)
		if err != nil {
			return env.fail("%v", err)
		}
		return &Val{T: boolT, S: fmt.Sprintf("(= (tagof %s) %d)", v.S, env.eng.typeID(t))}
	case "jsondec", "jsonerr":
		// jsondec(data, T): the value json.Unmarshal stores into a *T for these bytes; jsonerr: its error result
		v := arg(0)
		if len(x.Args) < 2 {
			return env.fail("%s arity", name)
		}
		t, err := env.eng.typeFromExpr(x.Args[1], env.pkg)
		if err != nil {
			return env.fail("%v", err)
		}
		dec, errf := env.eng.jsonFuncs(t)
		if name == "jsondec" {
			return &Val{T: t, S: fmt.Sprintf("(%s %s)", dec, v.S)}
		}
		return &Val{T: types.Universe.Lookup("error").Type(), S: fmt.Sprintf("(%s %s)", errf, v.S)}
	case "unbox":
		v := arg(0)
		t, err := env.eng.typeFromExpr(x.Args[1], env.pkg)
		if err != nil {
			return env.fail("%v", err)
		}
		_, ub := env.eng.boxFuncs(env.eng.sortOf(t))
		return &Val{T: t, S: fmt.Sprintf("(%s %s)", ub, v.S)}
	case "seq":
		// seq(b0, b1, ...) byte sequence literal of values
		var parts []string
		for i := range x.Args {
			parts = append(parts, "(seq.unit "+arg(i).S+")")
		}
		if len(parts) == 0 {
			return &Val{T: types.NewSlice(types.Typ[types.Uint8]), S: "(as seq.empty (Seq Int))"}
		}
		if len(parts) == 1 {
			return &Val{T: types.NewSlice(types.Typ[types.Uint8]), S: parts[0]}
		}
		return &Val{T: types.NewSlice(types.Typ[types.Uint8]), S: "(seq.++ " + strings.Join(parts, " ") + ")"}
	case "next":
		return &Val{T: intT, S: env.s.next}
	case "ref":
		// ref(s): backing array identity of a slice
		return &Val{T: intT, S: "(sl_ref " + arg(0).S + ")"}
	case "off":
		return &Val{T: intT, S: "(sl_off " + arg(0).S + ")"}
	case "contains":
		// contains(a, b): b occurs in a (byte strings / strings), as strings.Contains
		return &Val{T: boolT, S: fmt.Sprintf("(seq.contains %s %s)", arg(0).S, arg(1).S)}
	case "sent":
		// sent(ch): the last value sent on channel ch
		v := arg(0)
		ct, ok := v.T.Underlying().(*types.Chan)
		if !ok {
			return env.fail("sent: argument must be a channel")
		}
		hn, hs := env.eng.chanHeap(ct.Elem())
		return &Val{T: ct.Elem(), S: fmt.Sprintf("(select %s %s)", env.s.heap(hn, hs), v.S)}
	case "heapsnap":
		// heapsnap(s): the current contents of the element heap of slice s (all slices of that element type);
		// only usable as an argument of an uninterpreted specification function, to make it state-dependent
		v := arg(0)
		sl, ok := v.T.Underlying().(*types.Slice)
		if !ok || isByteSeq(v.T) {
			return env.fail("heapsnap: argument must be a non-byte slice")
		}
		hn, hs := env.eng.elemHeap(sl.Elem())
		return &Val{T: intT, S: env.s.heap(hn, hs), RawSort: hs}
	}
	// uninterpreted specification functions: ufBool_x / ufInt_x / ufBytes_x (declared on demand)
	for pfx, rs := range map[string]string{"ufBool_": "Bool", "ufInt_": "Int", "ufBytes_": "(Seq Int)"} {
		if strings.HasPrefix(name, pfx) {
			var as, sorts []string
			for i := range x.Args {
				v := arg(i)
				as = append(as, v.S)
				if v.RawSort != "" {
					sorts = append(sorts, v.RawSort)
				} else {
					sorts = append(sorts, env.eng.sortOf(v.T))
				}
			}
			if _, ok := env.eng.syms.syms[name]; !ok {
				env.eng.syms.add(name, fmt.Sprintf("(declare-fun %s (%s) %s)", name, strings.Join(sorts, " "), rs))
			}
			rt := types.Type(boolT)
			if rs == "Int" {
				rt = intT
			} else if rs != "Bool" {
				rt = types.NewSlice(types.Typ[types.Uint8])
			}
			return &Val{T: rt, S: app(name, as...)}
		}
	}
	// conversion to a basic / local named type
	if o := types.Universe.Lookup(name); o != nil {
		if tn, ok := o.(*types.TypeName); ok && len(x.Args) == 1 {
			v := arg(0)
			return &Val{T: tn.Type(), S: v.S, Const: v.Const}
		}
	}
	if p, ok := env.eng.preds[name]; ok {
		return env.applyPred(p, x.Args)
	}
	if env.pkg != nil {
		if o := env.pkg.Scope().Lookup(name); o != nil {
			switch oo := o.(type) {
			case *types.TypeName:
				v := arg(0)
				return &Val{T: oo.Type(), S: v.S}
			case *types.Func:
				return env.applyFunc(oo, nil, x.Args)
			}
		}
	}
	return env.fail("unknown function %q in specification", name)
}

func (env *SpecEnv) applyPred(p *Pred, args []ast.Expr) *Val {
	if len(args) != len(p.Params) {
		return env.fail("pred %s: arity", p.Name)
	}
	var vals []*Val
	for i := range p.Params {
		vals = append(vals, env.evalGo(args[i]))
	}
	return env.applyPredVals(p, vals)
}

func (env *SpecEnv) applyPredVals(p *Pred, vals []*Val) *Val {
	names := map[string]*Val{}
	ppkg := env.pkg
	if pp := env.eng.pkgs[p.Pkg]; pp != nil {
		ppkg = pp.Types
	}
	for i, b := range p.Params {
		v := vals[i]
		t, err := env.eng.resolveType(b.Type, ppkg)
		if err != nil {
			return env.fail("pred %s: %v", p.Name, err)
		}
		names[b.Name] = &Val{T: t, S: v.S}
	}
	sub := &SpecEnv{eng: env.eng, vc: env.vc, s: env.s, old: env.old, names: names, pkg: ppkg, quant: env.quant, side: env.side, fr: env.fr}
	// quantified variables remain visible by their SMT names only; preds are closed over their params
	r := sub.eval(p.Body.E)
	if sub.err != nil {
		env.err = fmt.Errorf("in pred %s: %v", p.Name, sub.err)
	}
	return r
}

// applyFunc uses a real function through its contract: a fresh result constrained by requires ==> ensures.
func (env *SpecEnv) applyFunc(f *types.Func, recv *Val, argExprs []ast.Expr) *Val {
	f = f.Origin()
	c := env.eng.contractFor(f)
	if c == nil {
		return env.fail("function %s is used in a specification but has no contract", funcKey(f))
	}
	if c.Function != nil {
		// a closed-form result: usable anywhere, also under quantifiers
		var fargs []*Val
		for _, a := range argExprs {
			fargs = append(fargs, env.evalGo(a))
		}
		if env.err != nil {
			return &Val{T: boolT, S: "true"}
		}
		fnames, _ := env.eng.contractNames(c, f, recv, fargs)
		fpkg := env.pkg
		if pp := env.eng.pkgs[c.Pkg]; pp != nil {
			fpkg = pp.Types
		} else if f.Pkg() != nil {
			fpkg = f.Pkg()
		}
		sub := &SpecEnv{eng: env.eng, vc: env.vc, s: env.s, old: env.s, names: fnames, pkg: fpkg, quant: env.quant, side: env.side, fr: env.fr}
		v := sub.eval(c.Function.E)
		if sub.err != nil {
			env.err = fmt.Errorf("in contract of %s: %v", c.Key, sub.err)
			return &Val{T: boolT, S: "true"}
		}
		c.Used = true
		res := &Val{T: f.Type().(*types.Signature).Results().At(0).Type(), S: v.S}
		if env.quant == 0 && env.side != nil && len(c.Ensures) > 0 {
			// outside quantifiers the postconditions of this instance are available too (requires ==> ensures)
			_, resNames := env.eng.contractNames(c, f, recv, fargs)
			fnames["result"] = res
			if len(resNames) > 0 && resNames[0] != "" {
				fnames[resNames[0]] = res
			}
			var pre, post []string
			for _, r := range c.Requires {
				pre = append(pre, sub.evalBool(r.E))
			}
			for _, r := range c.Ensures {
				post = append(post, sub.evalBool(r.E))
			}
			if sub.err != nil {
				env.err = fmt.Errorf("in contract of %s: %v", c.Key, sub.err)
				return res
			}
			*env.side = append(*env.side, implies(and(pre...), and(post...)))
		}
		return res
	}
	if env.quant > 0 {
		return env.fail("function %s applied under a quantifier (use a pred)", funcKey(f))
	}
	if !c.Pure && !(c.HasFrame && len(c.Assigns) == 0) {
		return env.fail("function %s used in a specification must be declared pure", funcKey(f))
	}
	var args []*Val
	for _, a := range argExprs {
		args = append(args, env.evalGo(a))
	}
	if env.err != nil {
		return &Val{T: boolT, S: "true"}
	}
	sig := f.Type().(*types.Signature)
	names, resNames := env.eng.contractNames(c, f, recv, args)
	var results []*Val
	for i := 0; i < sig.Results().Len(); i++ {
		t := sig.Results().At(i).Type()
		r := &Val{T: t, S: env.vc.declare("app_"+f.Name(), env.eng.sortOf(t))}
		results = append(results, r)
		if i < len(resNames) && resNames[i] != "" {
			names[resNames[i]] = r
		}
		if env.side != nil {
			*env.side = append(*env.side, env.eng.typeFact(r, ""))
		}
	}
	if len(results) == 1 {
		names["result"] = results[0]
	}
	cpkg := env.pkg
	if pp := env.eng.pkgs[c.Pkg]; pp != nil {
		cpkg = pp.Types
	} else if f.Pkg() != nil {
		cpkg = f.Pkg()
	}
	sub := &SpecEnv{eng: env.eng, vc: env.vc, s: env.s, old: env.s, names: names, pkg: cpkg, side: env.side, fr: env.fr}
	var pre, post []string
	for _, r := range c.Requires {
		pre = append(pre, sub.evalBool(r.E))
	}
	for _, r := range c.Ensures {
		post = append(post, sub.evalBool(r.E))
	}
	if sub.err != nil {
		env.err = fmt.Errorf("in contract of %s: %v", c.Key, sub.err)
		return &Val{T: boolT, S: "true"}
	}
	c.Used = true
	if env.side != nil {
		*env.side = append(*env.side, implies(and(pre...), and(post...)))
	}
	if len(results) == 0 {
		return &Val{T: boolT, S: "true"}
	}
	return results[0]
}

// contractNames binds the parameter names of a contract to argument values.
func (e *Engine) contractNames(c *Contract, f *types.Func, recv *Val, args []*Val) (map[string]*Val, []string) {
	sig := f.Type().(*types.Signature)
	names := map[string]*Val{}
	if sig.Recv() != nil && recv != nil {
		rn := sig.Recv().Name()
		if fi := e.funcs[f]; fi != nil && fi.Decl.Recv != nil && len(fi.Decl.Recv.List) > 0 && len(fi.Decl.Recv.List[0].Names) > 0 {
			rn = fi.Decl.Recv.List[0].Names[0].Name
		}
		if rn != "" && rn != "_" {
			names[rn] = recv
		}
		names["recv"] = recv
	}
	for i := 0; i < sig.Params().Len() && i < len(args); i++ {
		n := sig.Params().At(i).Name()
		if c.Extern && i < len(c.Params) {
			n = c.Params[i]
		}
		if n != "" && n != "_" {
			names[n] = &Val{T: sig.Params().At(i).Type(), S: args[i].S, Const: args[i].Const, Fn: args[i].Fn, Dyn: args[i].Dyn}
		}
		names[fmt.Sprintf("arg%d", i)] = args[i]
	}
	var res []string
	for i := 0; i < sig.Results().Len(); i++ {
		n := sig.Results().At(i).Name()
		if c.Extern && i < len(c.Results) {
			n = c.Results[i]
		}
		if n == "" || n == "_" {
			n = fmt.Sprintf("result%d", i)
		}
		res = append(res, n)
	}
	return names, res
}
