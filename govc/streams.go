package main

// Byte-stream model of io.Writer targets (hash.Hash, *bytes.Buffer): every writer object has a ghost
// byte sequence (heap H:stream, keyed by the writer's key). sha256 digests are hash32 of that sequence;
// encoding/binary.Write appends the fixed-size encoding of its argument. These models are trusted and are
// listed in the evidence (trusted_base) whenever they are used.

import (
	"fmt"
	"go/types"
	"strings"
)

const streamHeap = "H:stream"
const streamSort = "(Array Int (Seq Int))"

func (e *Engine) streamSyms() {
	if _, ok := e.syms.syms["wkey"]; ok {
		return
	}
	e.syms.add("wkey", "(declare-fun wkey (Int) Int)")
	e.syms.add("wfail", "(declare-fun wfail (Int) Bool)")
}

// hashSym declares hash32 with its axioms: 32-byte results and collision freedom (assumption: sha256 is
// injective on the inputs the node ever sees).
func (e *Engine) hashSym() {
	if _, ok := e.syms.syms["hash32"]; ok {
		return
	}
	e.syms.add("hash32", `(declare-fun hash32 ((Seq Int)) (Seq Int))
(assert (forall ((a (Seq Int))) (! (= (seq.len (hash32 a)) 32) :pattern ((hash32 a)))))
(assert (forall ((a (Seq Int)) (b (Seq Int))) (! (=> (= (hash32 a) (hash32 b)) (= a b)) :pattern ((hash32 a) (hash32 b)))))`)
	e.assumptions["sha256 is modelled as an injective function hash32 with 32-byte results (collision freedom is assumed)"] = true
}

// writerKey returns the stream key of a writer value (pointer: the reference; interface: wkey of the value).
func (fr *Frame) writerKey(w *Val) string {
	fr.eng.streamSyms()
	if _, ok := w.T.Underlying().(*types.Pointer); ok {
		return w.S
	}
	if w.Dyn != nil {
		if _, ok := w.Dyn.T.Underlying().(*types.Pointer); ok {
			return w.Dyn.S
		}
	}
	return "(wkey " + w.S + ")"
}

func (s *State) stream(key string) string {
	return fmt.Sprintf("(select %s %s)", s.heap(streamHeap, streamSort), key)
}

func (s *State) setStream(key, val string) {
	s.setHeap(streamHeap, streamSort, fmt.Sprintf("(store %s %s %s)", s.heap(streamHeap, streamSort), key, val))
}

// appendStream: stream[key] ++= bytes when the write succeeds; on a failing writer the content is unknown.
func (fr *Frame) appendStream(s *State, key, bytes string) *Val {
	errT := types.Universe.Lookup("error").Type()
	err := fr.freshVal(s, errT, "werr")
	s.assume(fmt.Sprintf("(=> (not (wfail %s)) (= %s 0))", key, err.S))
	old := s.stream(key)
	junk := fr.vc.declare("wjunk", "(Seq Int)")
	nv := fr.vc.define("stream", "(Seq Int)", ite(eq(err.S, "0"), fmt.Sprintf("(seq.++ %s %s)", old, bytes), junk))
	s.setStream(key, nv)
	return err
}

// encodeFixed returns the encoding binary.Write produces for a value of static type t (ok=false: not a
// fixed-size type the model knows).
func (fr *Frame) encodeFixed(v *Val, little bool) (string, bool) {
	t := v.T
	if isByteSeq(t) {
		if b, ok := t.Underlying().(*types.Basic); ok && b.Info()&types.IsString != 0 {
			return "", false // binary.Write rejects strings
		}
		return v.S, true
	}
	if b, ok := t.Underlying().(*types.Basic); ok {
		if b.Info()&types.IsBoolean != 0 {
			return fmt.Sprintf("(seq.unit (ite %s 1 0))", v.S), true
		}
		if b.Info()&types.IsInteger != 0 {
			switch b.Kind() {
			case types.Int, types.Uint, types.Uintptr:
				return "", false // not fixed-size: binary.Write returns an error
			}
			bits, signed := intBits(t)
			if bits == 8 {
				if signed {
					return fmt.Sprintf("(seq.unit (mod %s 256))", v.S), true
				}
				return fmt.Sprintf("(seq.unit %s)", v.S), true
			}
			w := bits / 8
			ord := "be"
			if little {
				ord = "le"
			}
			dec, enc := fmt.Sprintf("dec_%s%d", ord, w), fmt.Sprintf("enc_%s%d", ord, w)
			fr.eng.codecSyms(dec, enc, w)
			if signed {
				return fmt.Sprintf("(%s (mod %s %s))", enc, v.S, pow2(bits)), true
			}
			return fmt.Sprintf("(%s %s)", enc, v.S), true
		}
	}
	return "", false
}

// streamModel implements the writer models; ok=false when callee is not one of them.
func (fr *Frame) streamModel(s *State, f *types.Func, recv *Val, args []*Val) ([]*Val, bool) {
	n := fullName(f)
	sig := f.Type().(*types.Signature)
	errT := types.Universe.Lookup("error").Type()
	note := func() { fr.eng.trustedUsed["model:"+n+" (byte-stream model of writers)"] = true }
	switch n {
	case "github.com/minio/sha256-simd.New", "crypto/sha256.New":
		note()
		fr.eng.streamSyms()
		ref := s.alloc()
		v := fr.freshVal(s, sig.Results().At(0).Type(), "hasher")
		s.assume(fmt.Sprintf("(and (not (= %s 0)) (= (wkey %s) %s) (not (wfail %s)))", v.S, v.S, ref, ref))
		s.setStream(ref, "(as seq.empty (Seq Int))")
		return []*Val{v}, true
	case "github.com/minio/sha256-simd.Sum256", "crypto/sha256.Sum256":
		note()
		fr.eng.hashSym()
		return []*Val{{T: sig.Results().At(0).Type(), S: fr.vc.define("sum", "(Seq Int)", "(hash32 "+args[0].S+")")}}, true
	case "io.Writer.Write", "hash.Hash.Write", "bytes.Buffer.Write", "bytes.Buffer.WriteString":
		note()
		key := fr.writerKey(recv)
		if strings.HasPrefix(n, "bytes.Buffer.") {
			fr.nilCheck(s, recv, 0)
			s.assume(fmt.Sprintf("(not (wfail %s))", key))
		}
		err := fr.appendStream(s, key, args[0].S)
		nres := &Val{T: intT, S: fr.vc.define("nw", "Int", ite(eq(err.S, "0"), "(seq.len "+args[0].S+")", fr.freshVal(s, intT, "nw").S))}
		s.assume(fmt.Sprintf("(and (<= 0 %s) (<= %s (seq.len %s)))", nres.S, nres.S, args[0].S))
		return []*Val{nres, err}, true
	case "bytes.Buffer.WriteByte":
		note()
		fr.nilCheck(s, recv, 0)
		key := fr.writerKey(recv)
		s.assume(fmt.Sprintf("(not (wfail %s))", key))
		err := fr.appendStream(s, key, "(seq.unit "+args[0].S+")")
		return []*Val{err}, true
	case "bytes.Buffer.Bytes", "bytes.Buffer.String":
		note()
		fr.nilCheck(s, recv, 0)
		return []*Val{{T: sig.Results().At(0).Type(), S: fr.vc.define("bufbytes", "(Seq Int)", s.stream(fr.writerKey(recv)))}}, true
	case "bytes.Buffer.Len":
		note()
		fr.nilCheck(s, recv, 0)
		return []*Val{{T: intT, S: "(seq.len " + s.stream(fr.writerKey(recv)) + ")"}}, true
	case "bytes.Buffer.Reset", "hash.Hash.Reset":
		note()
		s.setStream(fr.writerKey(recv), "(as seq.empty (Seq Int))")
		return nil, true
	case "bytes.NewBuffer":
		note()
		fr.eng.streamSyms()
		ref := s.alloc()
		s.assume(fmt.Sprintf("(not (wfail %s))", ref))
		s.setStream(ref, args[0].S)
		return []*Val{{T: sig.Results().At(0).Type(), S: ref}}, true
	case "hash.Hash.Sum":
		note()
		fr.eng.hashSym()
		key := fr.writerKey(recv)
		return []*Val{{T: sig.Results().At(0).Type(), S: fr.vc.define("sum", "(Seq Int)", fmt.Sprintf("(seq.++ %s (hash32 %s))", args[0].S, s.stream(key)))}}, true
	case "encoding/binary.Write":
		note()
		key := fr.writerKey(args[0])
		little := strings.Contains(types.TypeString(args[1].T, nil), "littleEndian")
		if args[1].Dyn != nil {
			little = strings.Contains(types.TypeString(args[1].Dyn.T, nil), "littleEndian")
		}
		data := args[2]
		if _, isI := data.T.Underlying().(*types.Interface); isI {
			if data.Dyn == nil {
				// unknown dynamic type: unknown bytes are appended
				fr.imprecise(0, "binary.Write of a value with unknown dynamic type")
				junk := fr.vc.declare("wdata", "(Seq Int)")
				return []*Val{fr.appendStream(s, key, junk)}, true
			}
			data = data.Dyn
		}
		enc, ok := fr.encodeFixed(data, little)
		if !ok {
			// binary.Write refuses the type: nothing is written and an error is returned
			err := fr.freshVal(s, errT, "werr")
			s.assume(not(eq(err.S, "0")))
			return []*Val{err}, true
		}
		return []*Val{fr.appendStream(s, key, enc)}, true
	}
	return nil, false
}

// isStreamModel reports whether f is handled by streamModel (used by the loop modification analysis).
func isStreamModel(f *types.Func) bool {
	switch fullName(f) {
	case "github.com/minio/sha256-simd.New", "crypto/sha256.New", "github.com/minio/sha256-simd.Sum256", "crypto/sha256.Sum256",
		"io.Writer.Write", "hash.Hash.Write", "bytes.Buffer.Write", "bytes.Buffer.WriteString", "bytes.Buffer.WriteByte",
		"bytes.Buffer.Bytes", "bytes.Buffer.String", "bytes.Buffer.Len", "bytes.Buffer.Reset", "hash.Hash.Reset", "bytes.NewBuffer",
		"hash.Hash.Sum", "encoding/binary.Write":
		return true
	}
	return false
}

// initObject establishes the ghost state of a freshly allocated zero value (bytes.Buffer: empty stream).
func (fr *Frame) initObject(s *State, t types.Type, ref string) {
	if n, ok := t.(*types.Named); ok && n.Obj().Pkg() != nil && n.Obj().Pkg().Path() == "bytes" && n.Obj().Name() == "Buffer" {
		fr.eng.streamSyms()
		s.assume(fmt.Sprintf("(not (wfail %s))", ref))
		s.setStream(ref, "(as seq.empty (Seq Int))")
	}
}

// verifyBinding: a definition d(T) of a digest input binds every field of struct T: for each field f (minus
// the excepted ones, which must not influence d at all) d(h[f:=a]) == d(h[f:=b]) ==> a == b. The field list
// comes from go/types, so a field added to the struct but not to the digest fails its obligation.
func (e *Engine) verifyBinding(b *Binding) *VC {
	vc := e.newVC(shortKey(b.Pkg) + ".binding." + b.Pred)
	var pkg *types.Package
	if pp := e.pkgs[b.Pkg]; pp != nil {
		pkg = pp.Types
	}
	p := e.preds[b.Pred]
	if p == nil || len(p.Params) != 1 {
		vc.failed = fmt.Errorf("binding %s: no one-parameter definition of that name", b.Pred)
		return vc
	}
	t, err := e.resolveType(b.Type, pkg)
	if err != nil {
		vc.failed = fmt.Errorf("binding %s: %v", b.Pred, err)
		return vc
	}
	st, ok := t.Underlying().(*types.Struct)
	if !ok {
		vc.failed = fmt.Errorf("binding %s: %s is not a struct", b.Pred, b.Type)
		return vc
	}
	except := map[string]bool{}
	for _, x := range b.Except {
		except[x] = true
	}
	s := vc.newState()
	fr := &Frame{eng: e, vc: vc, pkg: pkg, lets: map[string]*Val{}}
	h := fr.freshVal(s, t, "bind_h")
	si := e.structSort(t)
	for x := range except {
		if si.fieldIndex(x) < 0 {
			vc.failed = fmt.Errorf("binding %s: excepted field %s does not exist in %s (renamed?)", b.Pred, x, b.Type)
			return vc
		}
	}
	for i := 0; i < st.NumFields(); i++ {
		f := st.Field(i)
		if strings.HasPrefix(f.Name(), "XXX_") {
			continue // protobuf bookkeeping, never part of a message's content
		}
		va := fr.freshVal(s, f.Type(), "bind_a")
		vb := fr.freshVal(s, f.Type(), "bind_b")
		ha := e.setField(h, i, va.S)
		hb := e.setField(h, i, vb.S)
		var side []string
		env := &SpecEnv{eng: e, vc: vc, s: s, old: s, names: map[string]*Val{}, pkg: pkg, side: &side, fr: fr}
		da := env.applyPredVals(p, []*Val{ha})
		db := env.applyPredVals(p, []*Val{hb})
		if env.err != nil {
			vc.failed = fmt.Errorf("binding %s: %v", b.Pred, env.err)
			return vc
		}
		for _, sf := range side {
			s.assume(sf)
		}
		sa := vc.define("bind_da", e.sortOf(da.T), da.S)
		sb := vc.define("bind_db", e.sortOf(db.T), db.S)
		if except[f.Name()] {
			vc.oblige(s.clone(), "indep."+f.Name()+".", eq(sa, sb), 0, fmt.Sprintf("%s does not depend on the excepted field %s.%s", b.Pred, b.Type, f.Name()))
			continue
		}
		st2 := s.clone()
		vc.oblige(st2, "bind."+f.Name()+".", implies(eq(sa, sb), eq(va.S, vb.S)), 0,
			fmt.Sprintf("%s binds field %s.%s: two values of the field with equal %s are equal", b.Pred, b.Type, f.Name(), b.Pred))
	}
	return vc
}

// ghostHeap: a named ghost set of byte strings per object (object id -> set), e.g. the keys deleted through a
// database transaction. Written only by `ghostadd` clauses of trusted contracts, read by gin() in specifications.
func ghostHeap(name string) (string, string) {
	if strings.HasSuffix(name, "_ref") {
		// a set of object references
		return "Q:ghost_" + sanitize(name), "(Array Int (Array Int Bool))"
	}
	return "Q:ghost_" + sanitize(name), "(Array Int (Array (Seq Int) Bool))"
}

// ghostMapHeap: a named ghost map (byte-string keys to byte-string values) per object, e.g. the contents of a
// contract's key-value storage as seen through SetData/GetData. Written by `ghostput`, read by gmap().
func ghostMapHeap(name string) (string, string) {
	return "R:ghostmap_" + sanitize(name), "(Array Int (Array (Seq Int) (Seq Int)))"
}

// lazySyms: theory symbols with quantified axioms are only included in the queries that mention them.
func (e *Engine) lazySyms() {
	e.syms.add("bytes2nat", `(declare-fun bytes2nat ((Seq Int)) Int)
(declare-fun nat2bytes (Int) (Seq Int))
(assert (forall ((n Int)) (! (=> (>= n 0) (= (bytes2nat (nat2bytes n)) n)) :pattern ((nat2bytes n)))))
(assert (forall ((b (Seq Int))) (! (>= (bytes2nat b) 0) :pattern ((bytes2nat b)))))
(assert (= (bytes2nat (as seq.empty (Seq Int))) 0))`)
	e.syms.alias("nat2bytes", "bytes2nat")
	e.syms.add("bcmp", `(declare-fun bcmp ((Seq Int) (Seq Int)) Int)
(assert (forall ((a (Seq Int)) (b (Seq Int))) (! (and (<= (- 1) (bcmp a b)) (<= (bcmp a b) 1) (= (bcmp a b) (- (bcmp b a))) (= (= (bcmp a b) 0) (= a b))) :pattern ((bcmp a b)))))
(assert (forall ((a (Seq Int)) (b (Seq Int)) (c (Seq Int))) (! (=> (and (<= (bcmp a b) 0) (<= (bcmp b c) 0)) (<= (bcmp a c) 0)) :pattern ((bcmp a b) (bcmp b c)))))`)
}
