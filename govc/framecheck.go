package main

// Frame conditions: a contract's `pure` / `assigns` clause is (a) checked against the body at every return
// and (b) used at call sites to keep everything else unchanged.

import (
	"fmt"
	"go/ast"
	"go/parser"
	"go/types"
	"sort"
	"strings"
)

type frameExempt struct {
	whole  map[string]bool             // heap name -> entirely exempt
	refs   map[string][]string         // heap name -> refs (SMT terms) whose whole object is exempt
	fields map[string]map[string][]int // heap name -> ref -> exempt field indexes
	all    bool
}

// frameExemptions evaluates the assigns designators of c in the entry state.
func (fr *Frame) frameExemptions(c *Contract, f *types.Func, names map[string]*Val, entry *State) (*frameExempt, error) {
	ex := &frameExempt{whole: map[string]bool{}, refs: map[string][]string{}, fields: map[string]map[string][]int{}}
	cpkg := fr.eng.pkgOfContract(c, f)
	env := &SpecEnv{eng: fr.eng, vc: fr.vc, s: entry, old: entry, names: names, pkg: cpkg, fr: fr}
	for _, d := range c.Assigns {
		d = strings.TrimSpace(d)
		if d == "all" {
			ex.all = true
			continue
		}
		if strings.HasPrefix(d, "heap(") || d == "big" || d == "streams" || strings.HasPrefix(d, "mapof(") || strings.HasPrefix(d, "ghost(") || strings.HasPrefix(d, "ghostmap(") || strings.HasPrefix(d, "chansent(") {
			hs, err := fr.eng.designatorHeaps(c, f, d)
			if err != nil {
				return nil, err
			}
			for k := range hs {
				ex.whole[k] = true
			}
			continue
		}
		if strings.HasPrefix(d, "stream(") && strings.HasSuffix(d, ")") {
			x, err := parser.ParseExpr(d[7 : len(d)-1])
			if err != nil {
				return nil, err
			}
			w := env.evalGo(x)
			if env.err != nil {
				return nil, env.err
			}
			ex.refs[streamHeap] = append(ex.refs[streamHeap], fr.writerKey(w))
			continue
		}
		if strings.HasPrefix(d, "elems(") && strings.HasSuffix(d, ")") {
			x, err := parser.ParseExpr(d[6 : len(d)-1])
			if err != nil {
				return nil, err
			}
			v := env.evalGo(x)
			if env.err != nil {
				env.err = nil
				hs, err2 := fr.eng.designatorHeaps(c, f, d)
				if err2 != nil {
					return nil, err2
				}
				for k := range hs {
					ex.whole[k] = true
				}
				continue
			}
			st, ok := v.T.Underlying().(*types.Slice)
			if !ok || isByte(st.Elem()) {
				return nil, fmt.Errorf("elems() of non-slice")
			}
			hn, _ := fr.eng.elemHeap(st.Elem())
			ex.refs[hn] = append(ex.refs[hn], "(sl_ref "+v.S+")")
			continue
		}
		x, err := parser.ParseExpr(d)
		if err != nil {
			return nil, err
		}
		switch xx := x.(type) {
		case *ast.SelectorExpr:
			base := env.evalGo(xx.X)
			if env.err != nil {
				return nil, env.err
			}
			pt, ok := base.T.Underlying().(*types.Pointer)
			if !ok {
				return nil, fmt.Errorf("field designator on non-pointer %s", base.T)
			}
			si := fr.eng.structSort(pt.Elem())
			idx := si.fieldIndex(xx.Sel.Name)
			if idx < 0 {
				return nil, fmt.Errorf("no field %s", xx.Sel.Name)
			}
			hn, _ := fr.eng.ptrHeap(pt.Elem())
			if ex.fields[hn] == nil {
				ex.fields[hn] = map[string][]int{}
			}
			ex.fields[hn][base.S] = append(ex.fields[hn][base.S], idx)
		case *ast.StarExpr:
			p := env.evalGo(xx.X)
			if env.err != nil {
				return nil, env.err
			}
			pt, ok := p.T.Underlying().(*types.Pointer)
			if !ok {
				return nil, fmt.Errorf("*designator on non-pointer")
			}
			hn, _ := fr.eng.ptrHeap(pt.Elem())
			ex.refs[hn] = append(ex.refs[hn], p.S)
		case *ast.Ident:
			if o, ok := cpkg.Scope().Lookup(xx.Name).(*types.Var); ok {
				hn, _ := fr.eng.globalHeap(o)
				ex.whole[hn] = true
			} else {
				return nil, fmt.Errorf("unsupported designator %q", d)
			}
		default:
			return nil, fmt.Errorf("unsupported designator %q", d)
		}
	}
	return ex, nil
}

// checkFrame emits, for one return state, the obligations that nothing outside the declared frame changed.
func (fr *Frame) checkFrame(c *Contract, ex *frameExempt, rs *State, ri int) {
	if ex.all {
		return
	}
	vc := fr.vc
	if vc.prune && vc.counters["frame-havoc"] > 0 {
		// the frame is already refuted by a live call without frame contract; per-return obligations add nothing
		return
	}
	next0 := fr.entry.next
	var names []string
	for k := range vc.heapSort {
		names = append(names, k)
	}
	sort.Strings(names)
	for _, hn := range names {
		if strings.HasPrefix(hn, "GC:") || ex.whole[hn] {
			continue
		}
		srt := vc.heapSort[hn]
		cur := rs.heap(hn, srt)
		init := vc.initHeap(hn, srt, 0)
		if cur == init {
			continue
		}
		kind := fmt.Sprintf("frame%d.", ri+1)
		if strings.HasPrefix(hn, "G:") {
			vc.oblige(rs, kind, eq(cur, init), fr.fi.Decl.Pos(), fmt.Sprintf("frame of %s: package variable %s is not in assigns but may change", c.Key, strings.TrimPrefix(hn, "G:")))
			continue
		}
		var conds []string
		conds = append(conds, "(<= 0 r)", "(< r "+next0+")")
		for _, x := range ex.refs[hn] {
			conds = append(conds, not(eq("r", x)))
		}
		for x := range ex.fields[hn] {
			conds = append(conds, not(eq("r", x)))
		}
		goal := fmt.Sprintf("(forall ((r Int)) (=> %s (= (select %s r) (select %s r))))", and(conds...), cur, init)
		// partially exempt objects: the other fields must be unchanged
		var extra []string
		var xs []string
		for x := range ex.fields[hn] {
			xs = append(xs, x)
		}
		sort.Strings(xs)
		for _, x := range xs {
			exIdx := map[int]bool{}
			for _, i := range ex.fields[hn][x] {
				exIdx[i] = true
			}
			// find the struct sort from the heap sort: "(Array Int S)"
			ssort := strings.TrimSuffix(strings.TrimPrefix(srt, "(Array Int "), ")")
			var si *StructInfo
			for _, cand := range fr.eng.structs {
				if cand.Sort == ssort {
					si = cand
				}
			}
			if si == nil {
				continue
			}
			whole := false
			for _, y := range ex.refs[hn] {
				if y == x {
					whole = true
				}
			}
			if whole {
				continue
			}
			for i := range si.Fields {
				if !exIdx[i] {
					extra = append(extra, implies(fmt.Sprintf("(< %s %s)", x, next0), eq(app(si.acc(i), "(select "+cur+" "+x+")"), app(si.acc(i), "(select "+init+" "+x+")"))))
				}
			}
		}
		vc.oblige(rs, kind, and(append([]string{goal}, extra...)...), fr.fi.Decl.Pos(),
			fmt.Sprintf("frame of %s: heap %s changes only inside the declared assigns (objects existing at entry)", c.Key, hn))
	}
	if rs.epoch != 0 {
		vc.oblige(rs, fmt.Sprintf("frame%d.", ri+1), "false", fr.fi.Decl.Pos(),
			fmt.Sprintf("frame of %s: a callee without frame contract (havoc) is reached; the declared frame cannot be established", c.Key))
	}
}

// resultHeaps lists the heaps in which a callee may have allocated the objects it returns.
func (e *Engine) resultHeaps(sig *types.Signature) map[string]string {
	out := map[string]string{}
	var visit func(t types.Type, depth int)
	visit = func(t types.Type, depth int) {
		if depth > 2 {
			return
		}
		switch u := t.Underlying().(type) {
		case *types.Pointer:
			hn, hs := e.ptrHeap(u.Elem())
			out[hn] = hs
			if st, ok := u.Elem().Underlying().(*types.Struct); ok && !isBigInt(u.Elem()) {
				for i := 0; i < st.NumFields(); i++ {
					visit(st.Field(i).Type(), depth+1)
				}
			}
		case *types.Slice:
			if !isByte(u.Elem()) {
				hn, hs := e.elemHeap(u.Elem())
				out[hn] = hs
				visit(u.Elem(), depth+1)
			}
		case *types.Map:
			vn, vs, dn, ds := e.mapHeaps(u)
			out[vn] = vs
			out[dn] = ds
		}
	}
	for i := 0; i < sig.Results().Len(); i++ {
		visit(sig.Results().At(i).Type(), 0)
	}
	return out
}

// extendHeaps: the callee may have allocated fresh objects (references >= the caller's next): their content
// is unknown, objects that existed before the call are untouched.
func (fr *Frame) extendHeaps(s *State, heaps map[string]string, oldNext string) {
	var names []string
	for k := range heaps {
		names = append(names, k)
	}
	sort.Strings(names)
	for _, hn := range names {
		srt := heaps[hn]
		cur := s.heap(hn, srt)
		nh := fr.vc.declare(sanitizeSym(hn)+"_ext", srt)
		if ax := fr.eng.heapWellTyped(hn, nh); ax != "" {
			fr.eng.syms.syms[nh].Text += ax
		}
		fr.vc.heapSort[hn] = srt
		s.assume(fmt.Sprintf("(forall ((r Int)) (! (=> (< r %s) (= (select %s r) (select %s r))) :pattern ((select %s r))))", oldNext, nh, cur, nh))
		s.heaps[hn] = nh
	}
}
